(* Signature proofs of knowledge (C10): exact acceptance condition, completeness,
   challenge / key / component binding, the timestamp variant and its totality. *)
From Coq Require Import Ring Field.
From BV Require Import Alg.Field Alg.Dlog Sem.Base Model.Oracles Model.Helpers Model.Varint
     Model.Core Model.Protocols Model.Api Theory.CoreFacts Theory.Schemes.

Local Open Scope N_scope.

(* ---------- u64 little-endian bytes are injective ---------- *)
Lemma le_bytes_inj n : forall a b, a < 256 ^ N.of_nat n -> b < 256 ^ N.of_nat n ->
  le_bytes n a = le_bytes n b -> a = b.
Proof.
  induction n as [|n IH]; intros a b Ha Hb H.
  - cbn in Ha, Hb. lia.
  - cbn [le_bytes] in H. inversion H as [[H0 H1]].
    assert (P : 256 ^ N.of_nat (S n) = 256 * 256 ^ N.of_nat n).
    { rewrite Nat2N.inj_succ, N.pow_succ_r'. reflexivity. }
    rewrite P in Ha, Hb.
    assert (E : a / 256 = b / 256).
    { apply IH; [apply N.div_lt_upper_bound; [discriminate|exact Ha]
                | apply N.div_lt_upper_bound; [discriminate|exact Hb] | exact H1]. }
    rewrite (N.div_mod a 256), (N.div_mod b 256) by discriminate. congruence.
Qed.

Lemma le64_inj a b : a < 2 ^ 64 -> b < 2 ^ 64 -> le64 a = le64 b -> a = b.
Proof. intros Ha Hb. apply le_bytes_inj; assumption. Qed.

Section PoK.
  Context (K : FieldOps) (laws : FieldLaws K) (O : Oracles K) (C : Impl).
  Add Field Kf9 : (K_field K laws).
  Notation F := (car K).
  Notation "0" := (f0 K).
  Infix "+" := (fadd K).
  Infix "*" := (fmul K).
  Infix "-" := (fsub K).
  Notation "- x" := (fopp K x).
  Notation sigpt := (pt K Gsig).
  Notation pkpt := (pt K Gpk).

  Lemma dassert_ok {A} dbg c (k : M A) : (dbg = true -> c = true) -> dassert dbg c k = k.
  Proof.
    intros H. unfold dassert. destruct dbg; [|reflexivity]. rewrite (H eq_refl). reflexivity.
  Qed.

  Lemma nz_b (a : F) : a <> 0 -> negb (is_zero_s a) = true.
  Proof. intros H. rewrite (proj2 (is_zero_s_false K laws a) H). reflexivity. Qed.

  Lemma nid_b {g} (p : pt K g) : dl p <> 0 -> negb (is_id p) = true.
  Proof. intros H. rewrite (proj2 (is_id_false K laws p) H). reflexivity. Qed.

  (* ---------- exact acceptance condition ---------- *)
  Theorem pok_verify_exact dbg (u v : sigpt) (pk : pkpt) (y : F) msg dst :
    (dbg = true -> eta O msg dst <> 0) ->
    (pok_verify O dbg u v pk y msg dst = Val (Ok tt)
     <-> dl u <> 0 /\ dl v <> 0 /\ dl pk <> 0 /\ y <> 0
         /\ dl v + (dl u + eta O msg dst * y) * dl pk = 0).
  Proof.
    intros Hh. unfold pok_verify.
    destruct (is_id u) eqn:Eu.
    { apply (is_id_dl K laws) in Eu. split; [discriminate | intros (H & _); contradiction]. }
    apply (is_id_false K laws) in Eu.
    destruct (is_id v) eqn:Ev.
    { apply (is_id_dl K laws) in Ev. split; [discriminate | intros (_ & H & _); contradiction]. }
    apply (is_id_false K laws) in Ev.
    destruct (is_id pk) eqn:Ep.
    { apply (is_id_dl K laws) in Ep. split; [discriminate | intros (_ & _ & H & _); contradiction]. }
    apply (is_id_false K laws) in Ep.
    destruct (is_zero_s y) eqn:Ey.
    { apply (is_zero_s_true K laws) in Ey. split; [discriminate | intros (_ & _ & _ & H & _); contradiction]. }
    apply (is_zero_s_false K laws) in Ey.
    rewrite dassert_ok by (intros E; apply nid_b; cbn; apply Hh; exact E).
    unfold pairing, is_id. cbn [dl pairing_dl hash_to_point padd pmul pgen].
    destruct (feqb K _ 0) eqn:E.
    - apply (feqb_true K laws) in E. split; [intros _ | reflexivity].
      repeat split; try assumption. etransitivity; [|exact E]. ring.
    - apply (feqb_false K laws) in E. split; [discriminate|].
      intros (_ & _ & _ & _ & H). exfalso. apply E. etransitivity; [|exact H]. ring.
  Qed.

  Theorem pok_verify_total dbg u v pk y msg dst :
    (dbg = true -> eta O msg dst <> 0) ->
    pok_verify O dbg u v pk y msg dst <> Panic /\ pok_verify O dbg u v pk y msg dst <> Loop.
  Proof.
    intros Hh. unfold pok_verify.
    destruct (is_id u); [split; discriminate|]. destruct (is_id v); [split; discriminate|].
    destruct (is_id pk); [split; discriminate|]. destruct (is_zero_s y); [split; discriminate|].
    rewrite dassert_ok by (intros E; apply nid_b; cbn; apply Hh; exact E).
    destruct (is_id _); split; discriminate.
  Qed.

  (* ---------- the honest prover ---------- *)
  Theorem generate_proof_ok (u : sigpt) (x y : F) (sig : sigpt) :
    dl u <> 0 -> dl sig <> 0 -> x <> 0 -> y <> 0 ->
    generate_proof u x y sig = Ok (u, pneg (pmul sig (x + y))).
  Proof.
    intros Hu Hs Hx Hy. unfold generate_proof.
    rewrite (proj2 (is_id_false K laws u) Hu), (proj2 (is_id_false K laws sig) Hs).
    rewrite (proj2 (is_zero_s_false K laws x) Hx), (proj2 (is_zero_s_false K laws y) Hy).
    reflexivity.
  Qed.

  Theorem generate_proof_guards (u : sigpt) (x y : F) (sig : sigpt) :
    dl u = 0 \/ dl sig = 0 \/ x = 0 \/ y = 0 -> generate_proof u x y sig = Err InvalidInputs.
  Proof.
    intros H. unfold generate_proof.
    destruct (is_id u) eqn:Eu; [reflexivity|]. apply (is_id_false K laws) in Eu.
    destruct (is_id sig) eqn:Es; [reflexivity|]. apply (is_id_false K laws) in Es.
    destruct (is_zero_s x) eqn:Ex; [reflexivity|]. apply (is_zero_s_false K laws) in Ex.
    destruct (is_zero_s y) eqn:Ey; [reflexivity|]. apply (is_zero_s_false K laws) in Ey.
    tauto.
  Qed.

  (* completeness of commit / challenge / response, for a signature sig = h_sig * sk and a
     commitment over hash value h: accepted iff the two hash values agree *)
  Theorem pok_complete_iff dbg (sk x y h_sig : F) msg dst :
    (dbg = true -> eta O msg dst <> 0) ->
    sk <> 0 -> x <> 0 -> y <> 0 -> x + y <> 0 -> h_sig <> 0 -> eta O msg dst <> 0 ->
    (pok_verify O dbg (mkpt (eta O msg dst * x)) (pneg (pmul (mkpt (h_sig * sk)) (x + y)))
                (public_key sk) y msg dst = Val (Ok tt)
     <-> h_sig = eta O msg dst).
  Proof.
    intros Hh Hsk Hx Hy Hxy Hs HH. rewrite (pok_verify_exact dbg _ _ _ _ _ _ Hh).
    cbn [dl pneg pmul public_key pgen]. split.
    - intros (_ & _ & _ & _ & E).
      assert (E2 : (eta O msg dst - h_sig) * (sk * (x + y)) = 0).
      { rewrite <- E. ring. }
      destruct (fmul_integral K laws _ _ E2) as [A|A].
      + apply -> (fsub_eq_0 K laws) in A. symmetry. exact A.
      + exfalso. destruct (fmul_integral K laws _ _ A); contradiction.
    - intros ->. repeat split.
      + apply (fmul_neq_0 K laws); assumption.
      + intros E. apply -> (fopp_eq_0 K laws) in E.
        destruct (fmul_integral K laws _ _ E) as [A|A]; [|contradiction].
        destruct (fmul_integral K laws _ _ A); contradiction.
      + rewrite (fmul_1_l K laws). exact Hsk.
      + exact Hy.
      + ring.
  Qed.

  (* ---------- binding ---------- *)
  (* another challenge: rejected (absolute) *)
  Theorem pok_other_challenge dbg u v pk y y' msg dst :
    (dbg = true -> eta O msg dst <> 0) -> eta O msg dst <> 0 ->
    pok_verify O dbg u v pk y msg dst = Val (Ok tt) ->
    pok_verify O dbg u v pk y' msg dst = Val (Ok tt) -> y' = y.
  Proof.
    intros Hh HH H1 H2. apply (pok_verify_exact dbg _ _ _ _ _ _ Hh) in H1, H2.
    destruct H1 as (_ & _ & Hp & _ & E1), H2 as (_ & _ & _ & _ & E2).
    assert (E : eta O msg dst * dl pk * (y' - y) = 0).
    { transitivity ((dl v + (dl u + eta O msg dst * y') * dl pk)
                    - (dl v + (dl u + eta O msg dst * y) * dl pk)); [ring|].
      rewrite E1, E2. ring. }
    destruct (fmul_integral K laws _ _ E) as [A|A].
    - destruct (fmul_integral K laws _ _ A); contradiction.
    - apply -> (fsub_eq_0 K laws). exact A.
  Qed.

  (* another public key: rejected unless the committed sum u + H*y is the identity *)
  Theorem pok_other_key dbg u v pk pk' y msg dst :
    (dbg = true -> eta O msg dst <> 0) -> dl u + eta O msg dst * y <> 0 ->
    pok_verify O dbg u v pk y msg dst = Val (Ok tt) ->
    pok_verify O dbg u v pk' y msg dst = Val (Ok tt) -> pk' = pk.
  Proof.
    intros Hh Hs H1 H2. apply (pok_verify_exact dbg _ _ _ _ _ _ Hh) in H1, H2.
    destruct H1 as (_ & _ & _ & _ & E1), H2 as (_ & _ & _ & _ & E2).
    apply (pt_eq K). apply (fmul_cancel_l K laws (dl u + eta O msg dst * y)); [exact Hs|].
    apply (fadd_cancel_r K laws _ _ (dl v)).
    transitivity (dl v + (dl u + eta O msg dst * y) * dl pk'); [ring|]. rewrite E2, <- E1. ring.
  Qed.

  (* any other v, any other u: rejected (absolute) *)
  Theorem pok_unique_v dbg u v v' pk y msg dst :
    (dbg = true -> eta O msg dst <> 0) ->
    pok_verify O dbg u v pk y msg dst = Val (Ok tt) ->
    pok_verify O dbg u v' pk y msg dst = Val (Ok tt) -> v' = v.
  Proof.
    intros Hh H1 H2. apply (pok_verify_exact dbg _ _ _ _ _ _ Hh) in H1, H2.
    destruct H1 as (_ & _ & _ & _ & E1), H2 as (_ & _ & _ & _ & E2).
    apply (pt_eq K). apply (fadd_cancel_r K laws _ _ ((dl u + eta O msg dst * y) * dl pk)).
    congruence.
  Qed.

  Theorem pok_unique_u dbg u u' v pk y msg dst :
    (dbg = true -> eta O msg dst <> 0) ->
    pok_verify O dbg u v pk y msg dst = Val (Ok tt) ->
    pok_verify O dbg u' v pk y msg dst = Val (Ok tt) -> u' = u.
  Proof.
    intros Hh H1 H2. apply (pok_verify_exact dbg _ _ _ _ _ _ Hh) in H1, H2.
    destruct H1 as (_ & _ & Hp & _ & E1), H2 as (_ & _ & _ & _ & E2).
    apply (pt_eq K). apply (fmul_cancel_r K laws (dl pk)); [exact Hp|].
    apply (fadd_cancel_r K laws _ _ (dl v + eta O msg dst * y * dl pk)).
    transitivity (dl v + (dl u' + eta O msg dst * y) * dl pk); [ring|]. rewrite E2, <- E1. ring.
  Qed.

  (* another message or scheme tag: only at a collision of the hash oracle *)
  Theorem pok_other_message dbg u v pk y msg dst msg' dst' :
    (dbg = true -> eta O msg dst <> 0) -> (dbg = true -> eta O msg' dst' <> 0) ->
    pok_verify O dbg u v pk y msg dst = Val (Ok tt) ->
    pok_verify O dbg u v pk y msg' dst' = Val (Ok tt) ->
    eta O msg' dst' = eta O msg dst.
  Proof.
    intros Hh Hh' H1 H2. apply (pok_verify_exact dbg _ _ _ _ _ _ Hh) in H1.
    apply (pok_verify_exact dbg _ _ _ _ _ _ Hh') in H2.
    destruct H1 as (_ & _ & Hp & Hy & E1), H2 as (_ & _ & _ & _ & E2).
    assert (E : (eta O msg' dst' - eta O msg dst) * (y * dl pk) = 0).
    { transitivity ((dl v + (dl u + eta O msg' dst' * y) * dl pk)
                    - (dl v + (dl u + eta O msg dst * y) * dl pk)); [ring|].
      rewrite E1, E2. ring. }
    destruct (fmul_integral K laws _ _ E) as [A|A].
    - apply -> (fsub_eq_0 K laws). exact A.
    - exfalso. destruct (fmul_integral K laws _ _ A); contradiction.
  Qed.

  (* ---------- wrappers: the tag is selected by the proof's / commitment's variant ---------- *)
  Theorem pok_wrapper_uses_variant dbg (p : @pok K) pk msg y :
    pok_wrapper_verify O C dbg p pk msg y
    = pok_verify O dbg (pok_u p) (pok_v p) pk y msg (dst_of C (pok_scheme p)).
  Proof. reflexivity. Qed.

  Theorem finalize_refuses_mismatch (c : @tagged K) x y (sig : @tagged K) :
    tg_scheme c <> tg_scheme sig -> pc_finalize c x y sig = Err InvalidProof.
  Proof.
    intros H. unfold pc_finalize. destruct (scheme_eqb (tg_scheme c) (tg_scheme sig)) eqn:E; [|reflexivity].
    exfalso. apply H. destruct (tg_scheme c), (tg_scheme sig); cbn in E; congruence.
  Qed.

  Theorem finalize_ok (c : @tagged K) x y (sig : @tagged K) :
    tg_scheme c = tg_scheme sig ->
    dl (tg_pt c) <> 0 -> dl (tg_pt sig) <> 0 -> x <> 0 -> y <> 0 ->
    pc_finalize c x y sig
    = Ok (mkpok (tg_scheme c) (tg_pt c) (pneg (pmul (tg_pt sig) (x + y)))).
  Proof.
    intros Hs Hu Hsig Hx Hy. unfold pc_finalize. rewrite Hs.
    replace (scheme_eqb (tg_scheme sig) (tg_scheme sig)) with true by (destruct (tg_scheme sig); reflexivity).
    rewrite (generate_proof_ok _ _ _ _ Hu Hsig Hx Hy). reflexivity.
  Qed.

  (* honest run through the wrappers, Basic / PoP: complete *)
  Theorem pok_wrappers_complete dbg s sk x y msg :
    s <> Aug -> eta O msg (dst_of C s) <> 0 ->
    sk <> 0 -> x <> 0 -> y <> 0 -> x + y <> 0 ->
    let sig := mktagged s (mkpt (eta O msg (dst_of C s) * sk)) in
    let c := mktagged s (mkpt (eta O msg (dst_of C s) * x)) in
    exists p, pc_finalize c x y sig = Ok p
              /\ pok_wrapper_verify O C dbg p (public_key sk) msg y = Val (Ok tt).
  Proof.
    intros Hna HH Hsk Hx Hy Hxy sig c.
    assert (Hu : dl (tg_pt c) <> 0) by (cbn; apply (fmul_neq_0 K laws); assumption).
    assert (Hsg : dl (tg_pt sig) <> 0) by (cbn; apply (fmul_neq_0 K laws); assumption).
    rewrite (finalize_ok c x y sig eq_refl Hu Hsg Hx Hy). eexists. split; [reflexivity|].
    rewrite pok_wrapper_uses_variant. cbn [pok_u pok_v pok_scheme tg_scheme tg_pt c sig].
    apply (pok_complete_iff dbg sk x y _ msg _ (fun _ => HH) Hsk Hx Hy Hxy HH HH). reflexivity.
  Qed.

  (* MessageAugmentation: the commitment hashes the bare message while the signature is over
     pk || msg, so an honest proof verifies ONLY at a hash collision (a defect of the library:
     known finding, see known_findings.json) *)
  Theorem pok_aug_incomplete dbg sk x y msg :
    let h_sig := Hs K O C Aug (public_key sk) msg in
    let h := eta O msg (DST_AUG C) in
    h <> 0 -> h_sig <> 0 -> sk <> 0 -> x <> 0 -> y <> 0 -> x + y <> 0 ->
    pok_wrapper_verify O C dbg
        (mkpok Aug (mkpt (h * x)) (pneg (pmul (mkpt (h_sig * sk)) (x + y))))
        (public_key sk) msg y = Val (Ok tt) ->
    eta O (enc O (public_key sk) ++ msg) (DST_AUG C) = eta O msg (DST_AUG C).
  Proof.
    intros h_sig h HH Hs' Hsk Hx Hy Hxy V. rewrite pok_wrapper_uses_variant in V.
    cbn [pok_u pok_v pok_scheme dst_of] in V.
    apply (pok_complete_iff dbg sk x y h_sig msg _ (fun _ => HH) Hsk Hx Hy Hxy Hs' HH) in V.
    exact V.
  Qed.

  (* ---------- timestamp variant ---------- *)
  Definition y_raw (u : sigpt) (t : N) : F := hkdf_scalar_raw O SALT_POK (enc O u ++ le64 t).

  Lemma compute_y_val u t : y_raw u t <> 0 -> compute_y O u t = Val (y_raw u t).
  Proof.
    intros H. unfold compute_y, hash_to_scalar, scalar_from_hkdf_bytes. fold (y_raw u t).
    rewrite (proj2 (is_zero_s_false K laws _) H). reflexivity.
  Qed.

  Definition ts_core dbg u v pk t msg dst : M (res unit) :=
    y <- compute_y O u t ;; dassert dbg (negb (is_zero_s y)) (pok_verify O dbg u v pk y msg dst).

  (* without a timeout the clock is never consulted *)
  Theorem ts_no_timeout dbg u v pk t msg dst now now' :
    verify_timestamp_proof O dbg u v pk t None msg dst now
    = verify_timestamp_proof O dbg u v pk t None msg dst now'.
  Proof. reflexivity. Qed.

  (* within the timeout: same verdict as without a timeout *)
  Theorem ts_within_timeout dbg u v pk t tmo msg dst now e :
    elapsed_ms now t = Some e -> (e <= tmo)%N ->
    verify_timestamp_proof O dbg u v pk t (Some tmo) msg dst now
    = verify_timestamp_proof O dbg u v pk t None msg dst now.
  Proof.
    intros He Hle. unfold verify_timestamp_proof. rewrite He.
    replace (tmo <? e) with false by (symmetry; apply N.ltb_ge; exact Hle). reflexivity.
  Qed.

  (* timeout elapsed, or timestamp in the future of the verifier's clock: rejected *)
  Theorem ts_elapsed_rejected dbg u v pk t tmo msg dst now :
    (forall e, elapsed_ms now t = Some e -> (tmo < e)%N) ->
    verify_timestamp_proof O dbg u v pk t (Some tmo) msg dst now = Val (Err InvalidProof).
  Proof.
    intros H. unfold verify_timestamp_proof. destruct (elapsed_ms now t) as [e|] eqn:E; [|reflexivity].
    rewrite (proj2 (N.ltb_lt _ _) (H e eq_refl)). reflexivity.
  Qed.

  Lemma elapsed_future now t : (now < t * 1000000)%N -> elapsed_ms now t = None.
  Proof.
    intros H. unfold elapsed_ms. replace (t * 1000000 <=? now) with false; [reflexivity|].
    symmetry. apply N.leb_gt. exact H.
  Qed.

  (* for EVERY timestamp, timeout and clock value the call returns (never aborts) *)
  Theorem ts_total dbg u v pk t tmo msg dst now :
    y_raw u t <> 0 -> (dbg = true -> eta O msg dst <> 0) ->
    verify_timestamp_proof O dbg u v pk t tmo msg dst now <> Panic
    /\ verify_timestamp_proof O dbg u v pk t tmo msg dst now <> Loop.
  Proof.
    intros Hy Hh. unfold verify_timestamp_proof.
    destruct (match tmo with None => false | Some tm => _ end); [split; discriminate|].
    rewrite (compute_y_val u t Hy). cbn [bind].
    rewrite dassert_ok by (intros _; apply nz_b; exact Hy).
    apply pok_verify_total. exact Hh.
  Qed.

  (* an altered timestamp is accepted only if the challenge derived from it collides *)
  Theorem ts_altered_needs_collision dbg u v pk t t' msg dst now now' :
    y_raw u t <> 0 -> y_raw u t' <> 0 -> (dbg = true -> eta O msg dst <> 0) -> eta O msg dst <> 0 ->
    verify_timestamp_proof O dbg u v pk t None msg dst now = Val (Ok tt) ->
    verify_timestamp_proof O dbg u v pk t' None msg dst now' = Val (Ok tt) ->
    y_raw u t' = y_raw u t.
  Proof.
    intros Hy Hy' Hh HH V1 V2. unfold verify_timestamp_proof in V1, V2.
    rewrite (compute_y_val u t Hy) in V1. rewrite (compute_y_val u t' Hy') in V2. cbn [bind] in V1, V2.
    rewrite dassert_ok in V1 by (intros _; apply nz_b; exact Hy).
    rewrite dassert_ok in V2 by (intros _; apply nz_b; exact Hy').
    eapply (pok_other_challenge dbg); eassumption.
  Qed.

  Theorem ts_inputs_differ (u : sigpt) t t' :
    (t < 2 ^ 64)%N -> (t' < 2 ^ 64)%N -> t <> t' -> enc O u ++ le64 t <> enc O u ++ le64 t'.
  Proof.
    intros Ht Ht' Hne E. apply app_inv_head in E. apply Hne. apply le64_inj; assumption.
  Qed.
End PoK.
