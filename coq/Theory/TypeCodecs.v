(* Per-type consequences of the generic codec theorems (C15, C16). *)
From BV Require Import Alg.Field Alg.Dlog Sem.Base Model.Oracles Model.Helpers Model.Varint
     Model.Core Model.Protocols Model.Api Model.Codec Theory.VarintFacts Theory.PoK
     Theory.CodecFacts Theory.Guards.

Local Open Scope N_scope.

Lemma scheme_tag_round_trip s : scheme_of_tag (u8_of_scheme s) = s.
Proof. destruct s; reflexivity. Qed.
Lemma scheme_u8_round_trip s : scheme_of_u8 (u8_of_scheme s) = s.
Proof. destruct s; reflexivity. Qed.
Lemma u8_of_scheme_lt s : u8_of_scheme s < 3.
Proof. destruct s; cbn; lia. Qed.
Lemma curve_u8_round_trip c : curve_of_u8 (u8_of_curve c) = Some c.
Proof. destruct c; reflexivity. Qed.

Section TypeCodecs.
  Context (K : FieldOps) (laws : FieldLaws K) (O : Oracles K) (C : Impl).
  Context (OL : OracleLaws K O (SIG_LEN C) (PK_LEN C)).
  Notation F := (car K).
  Notation sigpt := (pt K Gsig).
  Notation pkpt := (pt K Gpk).

  Lemma wf_sig (p : sigpt) : wf_val (sh_sig C) (v_sig O p).
  Proof. cbn. split; [apply (ol_enc_sig_len K O _ _ OL) | apply (ol_enc_sig_wf K O _ _ OL)]. Qed.
  Lemma wf_pk (p : pkpt) : wf_val (sh_pk C) (v_pk O p).
  Proof. cbn. split; [apply (ol_enc_pk_len K O _ _ OL) | apply (ol_enc_pk_wf K O _ _ OL)]. Qed.
  Lemma wfb_rev l : wfb l -> wfb (rev l).
  Proof. unfold wfb. rewrite !Forall_forall. intros H x Hx. apply H. apply in_rev. exact Hx. Qed.
  Lemma wf_scalar (a : F) : wf_val sh_scalar (v_scalar O a).
  Proof.
    cbn. unfold ser_scalar. split; [rewrite rev_length; apply (ol_repr_len K O _ _ OL)|].
    apply wfb_rev. apply (ol_repr_wf K O _ _ OL).
  Qed.
  Lemma get_sig_v (p : sigpt) : get_sig O (v_sig O p) = Some p.
  Proof. destruct p as [a]. cbn. rewrite (ol_dec_enc_sig K O _ _ OL). reflexivity. Qed.
  Lemma get_pk_v (p : pkpt) : get_pk O (v_pk O p) = Some p.
  Proof. destruct p as [a]. cbn. rewrite (ol_dec_enc_pk K O _ _ OL). reflexivity. Qed.
  Lemma get_scalar_v (a : F) : get_scalar O (v_scalar O a) = Some a.
  Proof. cbn. apply (ol_sdec_ser K O _ _ OL). Qed.

  (* ---------- PublicKey / MultiPublicKey / ProofOfPossession ---------- *)
  Theorem public_key_round_trip (p : pkpt) : pk_try_from O C (pk_to_bytes O p) = Ok p.
  Proof.
    unfold pk_try_from, pk_to_bytes. destruct p as [a]. cbn [enc dl].
    rewrite (ol_enc_pk_len K O _ _ OL), Nat.eqb_refl. cbn [negb].
    rewrite (ol_dec_enc_pk K O _ _ OL). reflexivity.
  Qed.
  Theorem public_key_length (p : pkpt) : length (pk_to_bytes O p) = PK_LEN C.
  Proof. destruct p; apply (ol_enc_pk_len K O _ _ OL). Qed.
  Theorem public_key_wrong_length b : length b <> PK_LEN C -> pk_try_from O C b = Err InvalidInputs.
  Proof.
    intros H. unfold pk_try_from. replace (Nat.eqb (length b) (PK_LEN C)) with false; [reflexivity|].
    symmetry. apply Nat.eqb_neq. exact H.
  Qed.
  Theorem pop_round_trip (p : sigpt) : pop_try_from O C (pop_to_bytes O p) = Ok p.
  Proof.
    unfold pop_try_from, pop_to_bytes. destruct p as [a]. cbn [enc dl].
    rewrite (ol_enc_sig_len K O _ _ OL), Nat.eqb_refl. cbn [negb].
    rewrite (ol_dec_enc_sig K O _ _ OL). reflexivity.
  Qed.
  Theorem pop_wrong_length b : length b <> SIG_LEN C -> pop_try_from O C b = Err InvalidInputs.
  Proof.
    intros H. unfold pop_try_from. replace (Nat.eqb (length b) (SIG_LEN C)) with false; [reflexivity|].
    symmetry. apply Nat.eqb_neq. exact H.
  Qed.

  (* ---------- SecretKey / ProofCommitmentSecret / ProofCommitmentChallenge ---------- *)
  Lemma repr_all_zero (s : F) : all_zero (repr O s) = true -> s = f0 K.
  Proof.
    intros H. eapply repr_inj; [exact OL|].
    rewrite (ol_repr_zero K O _ _ OL). apply all_zero_repr_iff; [exact H|].
    apply (ol_repr_len K O _ _ OL).
  Qed.

  Lemma all_zero_rev l : all_zero (rev l) = all_zero l.
  Proof.
    unfold all_zero. destruct (forallb _ l) eqn:E.
    - rewrite forallb_forall in *. intros x Hx. apply E. apply in_rev. exact Hx.
    - destruct (forallb _ (rev l)) eqn:E2; [|reflexivity]. rewrite forallb_forall in E2.
      assert (forallb (fun b => b =? 0) l = true).
      { apply forallb_forall. intros x Hx. apply E2. apply -> in_rev. exact Hx. }
      congruence.
  Qed.

  Theorem scalar_be_round_trip (s : F) :
    s <> f0 K -> scalar_from_be_bytes O (scalar_to_be_bytes O s) = Some s.
  Proof.
    intros Hs. unfold scalar_from_be_bytes, scalar_to_be_bytes.
    rewrite is_zero_bytes_correct by (apply wfb_rev; apply (ol_repr_wf K O _ _ OL)).
    rewrite all_zero_rev. destruct (all_zero (repr O s)) eqn:E.
    - exfalso. apply Hs. apply repr_all_zero. exact E.
    - rewrite rev_involutive. apply (ol_unrepr_repr K O _ _ OL).
  Qed.

  Theorem scalar_le_round_trip (s : F) :
    s <> f0 K -> scalar_from_le_bytes O (scalar_to_le_bytes O s) = Some s.
  Proof.
    intros Hs. unfold scalar_from_le_bytes, scalar_to_le_bytes.
    rewrite is_zero_bytes_correct by apply (ol_repr_wf K O _ _ OL).
    destruct (all_zero (repr O s)) eqn:E.
    - exfalso. apply Hs. apply repr_all_zero. exact E.
    - apply (ol_unrepr_repr K O _ _ OL).
  Qed.

  Theorem scalar_be_is_reversed_le (s : F) : scalar_to_be_bytes O s = rev (scalar_to_le_bytes O s).
  Proof. reflexivity. Qed.

  Theorem secret_key_round_trip (s : F) : s <> f0 K -> sk_try_from O (sk_to_bytes O s) = Ok s.
  Proof.
    intros Hs. unfold sk_try_from, sk_to_bytes.
    replace (length (scalar_to_be_bytes O s)) with 32%nat
      by (unfold scalar_to_be_bytes; rewrite rev_length; symmetry; apply (ol_repr_len K O _ _ OL)).
    cbn [Nat.eqb negb]. rewrite (scalar_be_round_trip s Hs). reflexivity.
  Qed.
  Theorem secret_key_wrong_length b : length b <> 32%nat -> sk_try_from O b = Err InvalidInputs.
  Proof.
    intros H. unfold sk_try_from. replace (Nat.eqb (length b) 32) with false; [reflexivity|].
    symmetry. apply Nat.eqb_neq. exact H.
  Qed.

  (* the curve-tagged wrapper comes back as the same curve variant and key *)
  Theorem secret_key_enum_round_trip (c : curve) (s : F) :
    s <> f0 K -> sk_enum_try_from O (sk_enum_to_bytes O c s) = Ok (c, s).
  Proof.
    intros Hs. unfold sk_enum_try_from, sk_enum_to_bytes.
    rewrite curve_u8_round_trip, (secret_key_round_trip s Hs). reflexivity.
  Qed.
  Theorem secret_key_enum_empty : sk_enum_try_from O [] = Err InvalidInputs.
  Proof. reflexivity. Qed.

  (* ---------- Signature / AggregateSignature / MultiSignature / ProofCommitment ---------- *)
  Lemma wf_tagged (t : @tagged K) : wf_val (sh_signature C) (tagged_to_val O t).
  Proof. cbn [wf_val sh_signature tagged_to_val]. split; [apply u8_of_scheme_lt | split; [lia | apply wf_sig]]. Qed.

  Theorem signature_round_trip (t : @tagged K) : signature_try_from O C (tagged_to_bytes O C t) = Ok t.
  Proof.
    unfold signature_try_from, tagged_from_bare, tagged_to_bytes.
    rewrite (shape_round_trip_exact _ _ (wf_tagged t)).
    unfold tagged_of_val, tagged_to_val. rewrite get_sig_v, scheme_tag_round_trip. destruct t; reflexivity.
  Qed.
  Theorem signature_length (t : @tagged K) : length (tagged_to_bytes O C t) = S (SIG_LEN C).
  Proof. apply (fixed_size_length (sh_signature C) _ _ (wf_tagged t)). reflexivity. Qed.
  Theorem signature_truncated_rejected (t : @tagged K) k :
    (k < S (SIG_LEN C))%nat -> signature_try_from O C (firstn k (tagged_to_bytes O C t)) = Err InvalidInputs.
  Proof.
    intros Hk. unfold signature_try_from, tagged_from_bare, tagged_to_bytes.
    rewrite (shape_truncation_rejected _ _ k (wf_tagged t)); [reflexivity|].
    fold (tagged_to_bytes O C t). rewrite signature_length. exact Hk.
  Qed.
  Theorem commitment_round_trip (t : @tagged K) : commitment_try_from O C (tagged_to_bytes O C t) = Ok t.
  Proof.
    unfold commitment_try_from. rewrite signature_length, Nat.eqb_refl. apply signature_round_trip.
  Qed.
  Theorem commitment_wrong_length b :
    length b <> S (SIG_LEN C) -> commitment_try_from O C b = Err InvalidInputs.
  Proof.
    intros H. unfold commitment_try_from.
    replace (Nat.eqb (length b) (S (SIG_LEN C))) with false; [reflexivity|].
    symmetry. apply Nat.eqb_neq. exact H.
  Qed.

  (* ---------- ProofOfKnowledge / ProofOfKnowledgeTimestamp ---------- *)
  Lemma wf_pok (p : @pok K) : wf_val (sh_pok C) (pok_to_val O p).
  Proof.
    cbn [wf_val sh_pok pok_to_val]. split; [apply u8_of_scheme_lt | split; [lia | split; apply wf_sig]].
  Qed.
  Theorem pok_round_trip (p : @pok K) : pok_try_from O C (pok_to_bytes O C p) = Ok p.
  Proof.
    unfold pok_try_from, pok_to_bytes. rewrite (shape_round_trip_exact _ _ (wf_pok p)).
    unfold pok_of_val, pok_to_val. rewrite !get_sig_v, scheme_tag_round_trip. destruct p; reflexivity.
  Qed.
  Theorem pok_ts_round_trip (p : @pok_ts K) :
    pts_timestamp p < 2 ^ 64 -> pokts_try_from O C (pokts_to_bytes O C p) = Ok p.
  Proof.
    intros Ht. unfold pokts_try_from, pokts_to_bytes.
    rewrite shape_round_trip_exact by (cbn [wf_val sh_pok_ts]; split; [apply wf_pok | exact Ht]).
    unfold pok_of_val, pok_to_val. rewrite !get_sig_v, scheme_tag_round_trip.
    destruct p as [[s u v] t]; reflexivity.
  Qed.
  Theorem pok_ts_length (p : @pok_ts K) :
    pts_timestamp p < 2 ^ 64 -> length (pokts_to_bytes O C p) = (S (SIG_LEN C + SIG_LEN C) + 8)%nat.
  Proof.
    intros Ht. unfold pokts_to_bytes.
    apply (fixed_size_length (sh_pok_ts C)); [cbn [wf_val sh_pok_ts]; split; [apply wf_pok | exact Ht] | reflexivity].
  Qed.

  (* ---------- share containers ---------- *)
  Theorem share_round_trip cap e (s : share) :
    sid s < 256 -> length (sval s) = cap -> wfb (sval s) ->
    share_try_from cap e (share_to_bytes s) = Ok s.
  Proof.
    intros Hid Hl Hw. unfold share_try_from, share_to_bytes.
    change (sid s :: sval s) with (enc_shape (SFixed (S cap)) (VBytes (sid s :: sval s))).
    rewrite shape_round_trip_exact.
    - destruct s; reflexivity.
    - cbn [wf_val]. split; [cbn; lia | constructor; assumption].
  Qed.
  Theorem share_length (s : share) cap : length (sval s) = cap -> length (share_to_bytes s) = S cap.
  Proof. intros H. cbn. lia. Qed.
  Theorem signature_share_round_trip (t : tagged_share) :
    sid (ts_share t) < 256 -> length (sval (ts_share t)) = SIG_LEN C -> wfb (sval (ts_share t)) ->
    sig_share_try_from C (sig_share_to_bytes t) = Ok t.
  Proof.
    intros Hid Hl Hw. unfold sig_share_try_from, sig_share_to_bytes, share_to_bytes.
    change (u8_of_scheme (ts_scheme t) :: sid (ts_share t) :: sval (ts_share t))
      with (enc_shape (sh_sig_share C)
              (VPair (VNum (u8_of_scheme (ts_scheme t))) (VBytes (sid (ts_share t) :: sval (ts_share t))))).
    rewrite shape_round_trip_exact.
    - rewrite scheme_u8_round_trip. destruct t as [s [i v]]; reflexivity.
    - cbn [wf_val sh_sig_share]. pose proof (u8_of_scheme_lt (ts_scheme t)).
      split; [lia | split; [cbn; lia | constructor; assumption]].
  Qed.

  (* ---------- SignCryptCiphertext / TimeCryptCiphertext ---------- *)
  Theorem sign_crypt_ciphertext_round_trip (ct : @sc_ct K) :
    N.of_nat (length (sc_v ct)) < 2 ^ 64 -> wfb (sc_v ct) ->
    scct_try_from O C (scct_to_bytes O C ct) = Ok ct.
  Proof.
    intros Hl Hw. unfold scct_try_from, scct_to_bytes. rewrite shape_round_trip_exact.
    - rewrite get_pk_v, get_sig_v, scheme_u8_round_trip. destruct ct; reflexivity.
    - cbn [wf_val sh_sc_ct]. pose proof (u8_of_scheme_lt (sc_scheme ct)).
      split; [apply wf_pk | split; [split; assumption | split; [apply wf_sig | lia]]].
  Qed.
  Theorem time_crypt_ciphertext_round_trip (ct : @tl_ct K) :
    length (tl_v ct) = 32%nat -> wfb (tl_v ct) -> N.of_nat (length (tl_w ct)) < 2 ^ 64 -> wfb (tl_w ct) ->
    tlct_try_from O C (tlct_to_bytes O C ct) = Ok ct.
  Proof.
    intros Lv Wv Lw Ww. unfold tlct_try_from, tlct_to_bytes. rewrite shape_round_trip_exact.
    - rewrite get_pk_v, scheme_u8_round_trip. destruct ct; reflexivity.
    - cbn [wf_val sh_tl_ct]. pose proof (u8_of_scheme_lt (tl_scheme ct)).
      split; [apply wf_pk | split; [split; assumption | split; [split; assumption | lia]]].
  Qed.
  Theorem sign_crypt_ciphertext_truncated_rejected (ct : @sc_ct K) k :
    N.of_nat (length (sc_v ct)) < 2 ^ 64 -> wfb (sc_v ct) ->
    (k < length (scct_to_bytes O C ct))%nat ->
    scct_try_from O C (firstn k (scct_to_bytes O C ct)) = Err DeserializationError.
  Proof.
    intros Hl Hw Hk. unfold scct_try_from, scct_to_bytes in *.
    rewrite shape_truncation_rejected; [reflexivity | | exact Hk].
    cbn [wf_val sh_sc_ct]. pose proof (u8_of_scheme_lt (sc_scheme ct)).
    split; [apply wf_pk | split; [split; assumption | split; [apply wf_sig | lia]]].
  Qed.

  (* ---------- ElGamal ---------- *)
  Lemma wf_egct (ct : @eg_ct K) : wf_val (sh_eg_ct C) (egct_to_val O ct).
  Proof. cbn [wf_val sh_eg_ct egct_to_val]. split; apply wf_pk. Qed.
  Theorem elgamal_ciphertext_round_trip (ct : @eg_ct K) : egct_try_from O C (egct_to_bytes O C ct) = Ok ct.
  Proof.
    unfold egct_try_from, egct_to_bytes. rewrite (shape_round_trip_exact _ _ (wf_egct ct)).
    unfold egct_of_val, egct_to_val. rewrite !get_pk_v. destruct ct; reflexivity.
  Qed.
  Theorem elgamal_proof_round_trip (p : @eg_proof K) : egp_try_from O C (egp_to_bytes O C p) = Ok p.
  Proof.
    unfold egp_try_from, egp_to_bytes. rewrite shape_round_trip_exact.
    - unfold egct_of_val, egct_to_val. rewrite !get_pk_v, !get_scalar_v. destruct p as [[c1 c2] a b c]; reflexivity.
    - cbn [wf_val sh_eg_proof]. split; [apply wf_egct | split; [apply wf_scalar | split; apply wf_scalar]].
  Qed.
  Theorem elgamal_proof_length (p : @eg_proof K) :
    length (egp_to_bytes O C p) = (PK_LEN C + PK_LEN C + (32 + (32 + 32)))%nat.
  Proof.
    unfold egp_to_bytes. apply (fixed_size_length (sh_eg_proof C)); [|reflexivity].
    cbn [wf_val sh_eg_proof]. split; [apply wf_egct | split; [apply wf_scalar | split; apply wf_scalar]].
  Qed.

  (* ---------- small enums ---------- *)
  Theorem signature_schemes_u8_total x : exists s, scheme_of_u8 x = s.
  Proof. eexists; reflexivity. Qed.
  Theorem bls12381_u8_round_trip c : curve_of_u8 (u8_of_curve c) = Some c.
  Proof. apply curve_u8_round_trip. Qed.
  Theorem bls12381_u8_rejects_others x : x <> 1 -> x <> 2 -> curve_of_u8 x = None.
  Proof.
    intros H1 H2. unfold curve_of_u8.
    replace (x =? 1) with false by (symmetry; apply N.eqb_neq; exact H1).
    replace (x =? 2) with false by (symmetry; apply N.eqb_neq; exact H2). reflexivity.
  Qed.
End TypeCodecs.
