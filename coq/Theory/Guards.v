(* Identity-point / zero-scalar guards (C04) and the branch-free zero test (C04, C16, C17). *)
From Coq Require Import Ring Field.
From BV Require Import Alg.Field Alg.Dlog Sem.Base Model.Oracles Model.Helpers Model.Varint
     Model.Core Model.Protocols Model.Api Theory.CoreFacts Theory.Schemes Theory.PoK
     Theory.SignCrypt Theory.TimeLock.

Local Open Scope N_scope.

(* ---------- the zero test, exhaustively over the 256 OR-values ---------- *)
Definition zero_test_of_or (t : N) : bool :=
  i8_add1 (i8_sar7 (N.lor t (i8_wrapping_neg t))) =? 1.

Lemma zero_test_table : forallb (fun t => Bool.eqb (zero_test_of_or t) (t =? 0)) (seqN 0 256) = true.
Proof. vm_compute. reflexivity. Qed.

Lemma in_seqN0 n t : t < N.of_nat n -> In t (seqN 0 n).
Proof.
  assert (G : forall k x, x <= t < x + N.of_nat k -> In t (seqN x k)).
  { induction k as [|k IH]; intros x H; cbn [seqN]; [lia|].
    destruct (N.eq_dec x t) as [->|Hne]; [left; reflexivity|]. right. apply IH. lia. }
  intros H. apply G. lia.
Qed.

Lemma zero_test_of_or_spec t : t < 256 -> zero_test_of_or t = (t =? 0).
Proof.
  intros H. pose proof zero_test_table as T. rewrite forallb_forall in T.
  specialize (T t (in_seqN0 256 t H)). apply Bool.eqb_prop in T. exact T.
Qed.

Lemma lor_lt_256 a b : a < 256 -> b < 256 -> N.lor a b < 256.
Proof.
  intros Ha Hb. change 256 with (2 ^ 8) in *.
  destruct (N.eq_dec (N.lor a b) 0) as [E|E]; [rewrite E; reflexivity|].
  apply N.log2_lt_pow2; [lia|]. rewrite N.log2_lor.
  apply N.max_lub_lt.
  - destruct (N.eq_dec a 0) as [->|Ea]; [reflexivity|]. apply N.log2_lt_pow2; [lia | exact Ha].
  - destruct (N.eq_dec b 0) as [->|Eb]; [reflexivity|]. apply N.log2_lt_pow2; [lia | exact Hb].
Qed.

Lemma fold_lor_spec (l : bytes) acc :
  wfb l -> acc < 256 ->
  fold_left N.lor l acc < 256
  /\ (fold_left N.lor l acc = 0 <-> acc = 0 /\ all_zero l = true).
Proof.
  revert acc. induction l as [|b l IH]; intros acc Hw Ha; cbn [fold_left all_zero forallb].
  - split; [exact Ha | tauto].
  - inversion Hw as [|? ? Hb Hw']; subst.
    destruct (IH (N.lor acc b) Hw' (lor_lt_256 _ _ Ha Hb)) as [I1 I2]. split; [exact I1|].
    rewrite I2, N.lor_eq_0_iff, andb_true_iff, N.eqb_eq. tauto.
Qed.

(* the zero test is correct for every byte string, in every build *)
Theorem is_zero_bytes_correct (l : bytes) : wfb l -> is_zero_bytes l = all_zero l.
Proof.
  intros Hw. unfold is_zero_bytes, or_bytes.
  destruct (fold_lor_spec l 0 Hw eq_refl) as [H1 H2].
  change 255 with (N.ones 8). rewrite N.land_ones. change (2 ^ 8) with 256.
  rewrite N.mod_small by exact H1.
  fold (zero_test_of_or (fold_left N.lor l 0)). rewrite zero_test_of_or_spec by exact H1.
  destruct (all_zero l) eqn:E.
  - apply N.eqb_eq. apply H2. split; reflexivity.
  - apply N.eqb_neq. intros Z. apply H2 in Z. destruct Z as [_ Z]. congruence.
Qed.

Section Guards.
  Context (K : FieldOps) (laws : FieldLaws K) (O : Oracles K) (C : Impl).
  Context (OL : OracleLaws K O (SIG_LEN C) (PK_LEN C)).
  Add Field Kf13 : (K_field K laws).
  Notation F := (car K).
  Notation "0" := (f0 K).

  (* the all-zero 32 bytes never import as a key / commitment secret / challenge *)
  Theorem scalar_from_be_bytes_zero : scalar_from_be_bytes O (repeatN 0 32) = None.
  Proof. reflexivity. Qed.
  Theorem scalar_from_le_bytes_zero : scalar_from_le_bytes O (repeatN 0 32) = None.
  Proof. reflexivity. Qed.

  Lemma all_zero_repr_iff (b : bytes) :
    all_zero b = true -> length b = 32%nat -> b = repeatN 0%N 32.
  Proof.
    intros H L. unfold all_zero in H. rewrite forallb_forall in H.
    apply (nth_ext _ _ 0%N 0%N); [rewrite L; reflexivity|].
    intros n Hn. unfold repeatN. rewrite nth_repeat.
    apply N.eqb_eq. apply H. apply nth_In. exact Hn.
  Qed.

  (* whatever the byte import returns is never the zero scalar *)
  Theorem scalar_from_be_bytes_never_zero (b : bytes) s :
    wfb b -> length b = 32%nat ->
    (forall x, unrepr O x = Some 0 -> x = repeatN 0%N 32) ->
    scalar_from_be_bytes O b = Some s -> s <> 0.
  Proof.
    intros Hw L Hz. unfold scalar_from_be_bytes. rewrite (is_zero_bytes_correct b Hw).
    destruct (all_zero b) eqn:E; [discriminate|]. intros H Z. subst s.
    apply Hz in H.
    assert (E' : all_zero b = true).
    { unfold all_zero. rewrite forallb_forall. intros x Hx. apply N.eqb_eq.
      apply in_rev in Hx. rewrite H in Hx. unfold repeatN in Hx. apply repeat_spec in Hx. exact Hx. }
    congruence.
  Qed.

  (* ---------- signing entry points with the zero scalar ---------- *)
  Theorem partial_sign_zero_share (sks : share) msg dst :
    unrepr O (sval sks) = Some 0 -> core_partial_sign O C sks msg dst = Err SigningError.
  Proof.
    intros H. unfold core_partial_sign, share_as_field_element. rewrite H.
    rewrite (core_sign_zero K laws O). reflexivity.
  Qed.

  Theorem sks_sign_zero_share (sks : share) s msg :
    unrepr O (sval sks) = Some 0 -> exists e, sks_sign O C sks s msg = Err e.
  Proof.
    intros H. unfold sks_sign, basic_partial_sign, pop_partial_sign. destruct s.
    - rewrite (partial_sign_zero_share sks _ _ H). eexists; reflexivity.
    - eexists; reflexivity.
    - rewrite (partial_sign_zero_share sks _ _ H). eexists; reflexivity.
  Qed.

  (* ---------- encryption to the identity public key ---------- *)
  Theorem tl_seal_identity_refused dbg (pk : pt K Gpk) msg id dst seed :
    dl pk = 0 -> tl_seal O dbg pk msg id dst seed = Val (Err InvalidInputs).
  Proof. intros H. unfold tl_seal. rewrite (proj2 (is_id_dl K laws pk) H). reflexivity. Qed.

  Theorem encrypt_time_lock_identity_refused dbg ent (pk : pt K Gpk) s msg id w :
    dl pk = 0 -> pk_encrypt_time_lock O C dbg ent pk s msg id w = Val (Err InvalidInputs, w).
  Proof. intros H. unfold pk_encrypt_time_lock. rewrite (proj2 (is_id_dl K laws pk) H). reflexivity. Qed.

  Theorem eg_seal_with_proof_identity_refused dbg (pk : pt K Gpk) m gen blinder seed :
    dl pk = 0 -> eg_seal_scalar_with_proof O C dbg pk m gen blinder seed = Val (Err InvalidInputs).
  Proof. intros H. unfold eg_seal_scalar_with_proof. rewrite (proj2 (is_id_dl K laws pk) H). reflexivity. Qed.

  (* ---------- verification entry points ---------- *)
  Theorem sig_verify_identity (sg : tagged) (pk : pt K Gpk) msg :
    dl (tg_pt sg) = 0 \/ dl pk = 0 -> sig_verify O C sg pk msg <> Ok tt.
  Proof.
    intros H V. apply (sig_verify_exact K laws O C) in V. destruct V as (A & B & _). tauto.
  Qed.

  Theorem multi_verify_identity (m : tagged) (mpk : pt K Gpk) msg :
    dl (tg_pt m) = 0 \/ dl mpk = 0 -> multi_verify O C m mpk msg <> Ok tt.
  Proof.
    intros H V. destruct m as [s p]. assert (E : multi_verify O C (mktagged s p) mpk msg = sig_verify O C (mktagged s p) mpk msg) by (destruct s; reflexivity).
    rewrite E in V. exact (sig_verify_identity _ _ _ H V).
  Qed.

  Theorem pop_verify_identity (p : pt K Gsig) (pk : pt K Gpk) :
    dl p = 0 \/ dl pk = 0 -> pop_wrapper_verify O C p pk <> Ok tt.
  Proof.
    intros H V. apply (pop_verify_exact K laws O C) in V. destruct V as (A & B & _). tauto.
  Qed.

  Theorem pks_verify_identity (pks : share) (sg : tagged_share) msg :
    dec_pk O (sval pks) = Some 0 \/ dec_sig O (sval (ts_share sg)) = Some 0 ->
    pks_verify O C pks sg msg <> Ok tt.
  Proof.
    intros H. unfold pks_verify, share_as_pk, share_as_sig.
    destruct (dec_pk O (sval pks)) as [a|] eqn:Ea; [|discriminate].
    destruct (dec_sig O (sval (ts_share sg))) as [b|] eqn:Eb; [|discriminate].
    intros V.
    assert (V' : sig_verify O C (mktagged (ts_scheme sg) (mkpt b)) (mkpt a) msg = Ok tt).
    { destruct (ts_scheme sg); exact V. }
    apply (sig_verify_identity _ _ _) in V'; [exact V'|]. cbn.
    destruct H as [H|H]; inversion H; subst; tauto.
  Qed.
End Guards.
