(* Aggregate signatures (C06) and multi-signatures (C07) at the API level. *)
From Coq Require Import Ring Field Permutation.
From BV Require Import Alg.Field Alg.Dlog Sem.Base Model.Oracles Model.Helpers Model.Varint
     Model.Core Model.Protocols Model.Api Theory.CoreFacts Theory.Schemes.

Section Aggregate.
  Context (K : FieldOps) (laws : FieldLaws K) (O : Oracles K) (C : Impl).
  Add Field Kf5 : (K_field K laws).
  Notation F := (car K).
  Notation "0" := (f0 K).
  Infix "+" := (fadd K).
  Infix "*" := (fmul K).
  Infix "-" := (fsub K).
  Notation tagged := (@tagged K).

  (* ---------- accumulation ---------- *)
  Definition all_scheme (s : scheme) (l : list tagged) : Prop := Forall (fun t => tg_scheme t = s) l.

  Lemma scheme_eqb_eq a b : scheme_eqb a b = true <-> a = b.
  Proof. destruct a, b; cbn; split; congruence. Qed.

  Lemma agg_loop_same s0 rest g :
    all_scheme (tg_scheme s0) rest ->
    agg_loop s0 rest g = Ok (fold_left padd (map tg_pt rest) g).
  Proof.
    revert g. induction rest as [|t rest IH]; intros g H; cbn; [reflexivity|].
    inversion H as [|? ? H1 H2]; subst. unfold same_scheme. rewrite H1.
    rewrite (proj2 (scheme_eqb_eq _ _) eq_refl). cbn. apply IH. exact H2.
  Qed.

  Lemma agg_loop_mixed s0 rest g :
    ~ all_scheme (tg_scheme s0) rest -> agg_loop s0 rest g = Err InvalidSignatureScheme.
  Proof.
    revert g. induction rest as [|t rest IH]; intros g H; cbn.
    - exfalso. apply H. constructor.
    - unfold same_scheme. destruct (scheme_eqb (tg_scheme t) (tg_scheme s0)) eqn:E; cbn; [|reflexivity].
      apply IH. intros H2. apply H. constructor; [apply scheme_eqb_eq; exact E | exact H2].
  Qed.

  Lemma all_scheme_dec s (l : list tagged) : all_scheme s l \/ ~ all_scheme s l.
  Proof.
    induction l as [|t l IH]; [left; constructor|].
    destruct (scheme_eqb (tg_scheme t) s) eqn:E.
    - apply scheme_eqb_eq in E. destruct IH as [IH|IH]; [left; constructor; assumption|right].
      intros H; inversion H; contradiction.
    - right. intros H; inversion H as [|? ? H1 H2]. apply scheme_eqb_eq in H1. congruence.
  Qed.

  (* >= 2 signatures of one scheme aggregate to the plain group sum, tagged with that scheme *)
  Theorem aggregate_from_signatures_ok s0 s1 rest :
    all_scheme (tg_scheme s0) (s1 :: rest) ->
    exists p, aggregate_from_signatures (s0 :: s1 :: rest) = Ok (mktagged (tg_scheme s0) p)
              /\ dl p = dl (psum (map tg_pt (s0 :: s1 :: rest))).
  Proof.
    intros H. unfold aggregate_from_signatures. cbn [length Nat.ltb Nat.leb].
    rewrite (agg_loop_same s0 (s1 :: rest) pid H). eexists. split; [reflexivity|].
    cbn [dl padd]. rewrite (fold_padd_dl K laws). cbn [map]. rewrite !(psum_cons K laws).
    cbn [dl pid]. ring.
  Qed.

  Theorem aggregate_from_signatures_too_few (l : list tagged) :
    (length l < 2)%nat -> aggregate_from_signatures l = Err InvalidSignature.
  Proof.
    intros H. unfold aggregate_from_signatures.
    destruct l as [|a [|b l]]; cbn in *; try reflexivity; lia.
  Qed.

  Theorem aggregate_from_signatures_mixed s0 s1 rest :
    ~ all_scheme (tg_scheme s0) (s1 :: rest) ->
    aggregate_from_signatures (s0 :: s1 :: rest) = Err InvalidSignatureScheme.
  Proof.
    intros H. unfold aggregate_from_signatures. cbn [length Nat.ltb Nat.leb].
    rewrite (agg_loop_mixed s0 (s1 :: rest) pid H). reflexivity.
  Qed.

  (* ---------- the duplicate-message scan of the Basic scheme ---------- *)
  Lemma existsb_bytes_eqb_in m seen : existsb (bytes_eqb m) seen = true <-> In m seen.
  Proof.
    rewrite existsb_exists. split.
    - intros (x & Hx & E). apply bytes_eqb_eq in E. subst. exact Hx.
    - intros H. exists m. split; [exact H | apply bytes_eqb_eq; reflexivity].
  Qed.

  Lemma dup_scan_spec seen (l : list (pt K Gpk * bytes)) :
    dup_scan seen l = false <->
    NoDup (map snd l) /\ (forall m, In m (map snd l) -> ~ In m seen).
  Proof.
    revert seen. induction l as [|[pk m] l IH]; intros seen; cbn [dup_scan map snd].
    - split; [intros _; split; [constructor | intros m []] | reflexivity].
    - rewrite orb_false_iff, IH. split.
      + intros (H1 & H2 & H3). split.
        * constructor; [|exact H2]. intros Hin. apply (H3 m Hin). left; reflexivity.
        * intros m' [<-|Hin].
          -- intros Hs. apply existsb_bytes_eqb_in in Hs. congruence.
          -- intros Hs. apply (H3 m' Hin). right; exact Hs.
      + intros (H1 & H2). inversion H1 as [|? ? Hn Hnd]; subst. repeat split.
        * destruct (existsb (bytes_eqb m) seen) eqn:E; [|reflexivity].
          apply existsb_bytes_eqb_in in E. exfalso. apply (H2 m); [left; reflexivity | exact E].
        * exact Hnd.
        * intros m' Hin [<-|Hs]; [contradiction|]. apply (H2 m'); [right; exact Hin | exact Hs].
  Qed.

  Corollary dup_scan_nodup (l : list (pt K Gpk * bytes)) :
    dup_scan [] l = false <-> NoDup (map snd l).
  Proof.
    rewrite dup_scan_spec. split; [intros [H _]; exact H | intros H; split; [exact H | intros m _ []]].
  Qed.

  (* ---------- exact acceptance condition of AggregateSignature::verify ---------- *)
  Definition aug_data (data : list (pt K Gpk * bytes)) : list (pt K Gpk * bytes) :=
    map (fun pm => (fst pm, pk_bytes O (fst pm) ++ snd pm)) data.

  (* the (key, hashed bytes) list and tag that enter the pairing equation for a scheme *)
  Definition eff_data (s : scheme) data := match s with Aug => aug_data data | _ => data end.

  Theorem aggregate_verify_exact dbg (a : tagged) data :
    (dbg = true -> hashes_nonzero K O (eff_data (tg_scheme a) data) (dst_of C (tg_scheme a))) ->
    (aggregate_verify O C dbg a data = Val (Ok tt)
     <-> (tg_scheme a = Basic -> NoDup (map snd data))
         /\ dl (tg_pt a) <> 0 /\ no_id_pk K data
         /\ dl (tg_pt a) = agg_rhs K O (eff_data (tg_scheme a) data) (dst_of C (tg_scheme a))).
  Proof.
    destruct a as [s p]. cbn [tg_scheme tg_pt]. intros Hh.
    unfold aggregate_verify. cbn [tg_scheme tg_pt]. destruct s; cbn [eff_data dst_of] in *.
    - unfold basic_aggregate_verify. destruct (dup_scan [] data) eqn:D.
      + split; [discriminate|]. intros (H & _). specialize (H eq_refl).
        apply dup_scan_nodup in H. congruence.
      + rewrite (core_aggregate_verify_exact K laws O dbg data p _ Hh).
        apply dup_scan_nodup in D. tauto.
    - unfold aug_aggregate_verify. fold (aug_data data).
      rewrite (core_aggregate_verify_exact K laws O dbg (aug_data data) p _ Hh).
      assert (E : no_id_pk K (aug_data data) <-> no_id_pk K data).
      { unfold no_id_pk, aug_data. rewrite Forall_map. cbn. tauto. }
      rewrite E. split; [intros (A & B & D); repeat split; try assumption; discriminate | tauto].
    - unfold pop_aggregate_verify.
      rewrite (core_aggregate_verify_exact K laws O dbg data p _ Hh).
      split; [intros (A & B & D); repeat split; try assumption; discriminate | tauto].
  Qed.

  (* any order of the pair list gives the same decision *)
  Theorem aggregate_verify_permutation dbg (a : tagged) data data' :
    (dbg = true -> hashes_nonzero K O (eff_data (tg_scheme a) data) (dst_of C (tg_scheme a))) ->
    Permutation data data' ->
    aggregate_verify O C dbg a data = Val (Ok tt) ->
    aggregate_verify O C dbg a data' = Val (Ok tt).
  Proof.
    intros Hh HP H.
    assert (HPe : Permutation (eff_data (tg_scheme a) data) (eff_data (tg_scheme a) data')).
    { destruct (tg_scheme a); cbn; try exact HP. unfold aug_data. apply Permutation_map. exact HP. }
    assert (Hh' : dbg = true -> hashes_nonzero K O (eff_data (tg_scheme a) data') (dst_of C (tg_scheme a))).
    { intros E. eapply hashes_nonzero_perm; [exact HPe | exact (Hh E)]. }
    apply (aggregate_verify_exact dbg a data Hh) in H.
    apply (aggregate_verify_exact dbg a data' Hh').
    destruct H as (H0 & H1 & H2 & H3). repeat split.
    - intros E. specialize (H0 E). eapply Permutation_NoDup; [|exact H0]. apply Permutation_map. exact HP.
    - exact H1.
    - eapply no_id_pk_perm; eassumption.
    - rewrite H3. apply (agg_rhs_perm K laws O). exact HPe.
  Qed.

  (* ---------- completeness for honest lists ---------- *)
  Fixpoint honest_rhs (s : scheme) (sks : list (F * bytes)) : F :=
    match sks with
    | [] => 0
    | (sk, m) :: r => Hs K O C s (public_key sk) m * sk + honest_rhs s r
    end.

  Definition honest_data (sks : list (F * bytes)) : list (pt K Gpk * bytes) :=
    map (fun km => (public_key (fst km), snd km)) sks.

  Lemma honest_rhs_agg s sks :
    agg_rhs K O (eff_data s (honest_data sks)) (dst_of C s) = honest_rhs s sks.
  Proof.
    unfold honest_data. induction sks as [|[sk m] r IH]; [destruct s; reflexivity|].
    destruct s; unfold eff_data, aug_data in *; cbn [map agg_rhs honest_rhs fst snd] in *;
      rewrite IH; unfold Hs, amsg, pk_bytes; cbn [dl public_key pmul pgen dst_of]; ring.
  Qed.

  (* the aggregate of honest signatures *)
  Definition honest_aggregate (s : scheme) (sks : list (F * bytes)) : tagged :=
    mktagged s (mkpt (honest_rhs s sks)).

  Theorem aggregate_verify_complete dbg s sks :
    (dbg = true -> hashes_nonzero K O (eff_data s (honest_data sks)) (dst_of C s)) ->
    (s = Basic -> NoDup (map snd sks)) ->
    Forall (fun km => fst km <> 0) sks ->
    honest_rhs s sks <> 0 ->
    aggregate_verify O C dbg (honest_aggregate s sks) (honest_data sks) = Val (Ok tt).
  Proof.
    intros Hh Hnd Hk Hne. apply (aggregate_verify_exact dbg); cbn [honest_aggregate tg_scheme tg_pt dl].
    - exact Hh.
    - repeat split.
      + intros E. unfold honest_data. rewrite map_map. cbn. apply Hnd. exact E.
      + exact Hne.
      + unfold no_id_pk, honest_data. rewrite Forall_map. cbn.
        eapply Forall_impl; [|exact Hk]. intros [sk m] H. cbn in *.
        rewrite (fmul_1_l K laws). exact H.
      + symmetry. apply honest_rhs_agg.
  Qed.

  (* Basic rejects a repeated message even when the aggregate is algebraically valid *)
  Theorem basic_rejects_repeated_message dbg p data :
    ~ NoDup (map snd data) ->
    aggregate_verify O C dbg (mktagged Basic p) data = Val (Err InvalidInputs).
  Proof.
    intros H. unfold aggregate_verify, basic_aggregate_verify. cbn [tg_scheme tg_pt].
    destruct (dup_scan [] data) eqn:D; [reflexivity|].
    apply dup_scan_nodup in D. contradiction.
  Qed.

  (* ---------- perturbations: two accepted lists have equal right-hand sides ---------- *)
  Theorem aggregate_verify_two_lists dbg (a : tagged) data data' :
    (dbg = true -> hashes_nonzero K O (eff_data (tg_scheme a) data) (dst_of C (tg_scheme a))) ->
    (dbg = true -> hashes_nonzero K O (eff_data (tg_scheme a) data') (dst_of C (tg_scheme a))) ->
    aggregate_verify O C dbg a data = Val (Ok tt) ->
    aggregate_verify O C dbg a data' = Val (Ok tt) ->
    agg_rhs K O (eff_data (tg_scheme a) data) (dst_of C (tg_scheme a))
    = agg_rhs K O (eff_data (tg_scheme a) data') (dst_of C (tg_scheme a)).
  Proof.
    intros H1 H2 V1 V2.
    apply (aggregate_verify_exact dbg a data H1) in V1.
    apply (aggregate_verify_exact dbg a data' H2) in V2.
    destruct V1 as (_ & _ & _ & E1), V2 as (_ & _ & _ & E2). congruence.
  Qed.

  Lemma agg_rhs_app l1 l2 dst :
    agg_rhs K O (l1 ++ l2) dst = agg_rhs K O l1 dst + agg_rhs K O l2 dst.
  Proof.
    induction l1 as [|[pk m] l1 IH]; cbn [agg_rhs app]; [ring|]. rewrite IH. ring.
  Qed.

  (* a pair dropped (or added): the lists can both be accepted only if that pair contributes 0,
     i.e. its key or its hash point is the identity -- impossible for honest inputs *)
  Theorem agg_rhs_drop l1 x l2 dst :
    agg_rhs K O (l1 ++ x :: l2) dst = agg_rhs K O (l1 ++ l2) dst ->
    dl (fst x) * eta O (snd x) dst = 0.
  Proof.
    rewrite !agg_rhs_app. destruct x as [pk m]. cbn [agg_rhs fst snd]. intros H.
    apply (fadd_cancel_r K laws _ _ (agg_rhs K O l1 dst + agg_rhs K O l2 dst)).
    transitivity (agg_rhs K O l1 dst + (dl pk * eta O m dst + agg_rhs K O l2 dst)); [ring|].
    rewrite H. ring.
  Qed.

  (* the message (or key) of one pair altered: relation between the two hash values *)
  Theorem agg_rhs_replace l1 x y l2 dst :
    agg_rhs K O (l1 ++ x :: l2) dst = agg_rhs K O (l1 ++ y :: l2) dst ->
    dl (fst x) * eta O (snd x) dst = dl (fst y) * eta O (snd y) dst.
  Proof.
    rewrite !agg_rhs_app. destruct x as [pk m], y as [pk' m']. cbn [agg_rhs fst snd]. intros H.
    apply (fadd_cancel_r K laws _ _ (agg_rhs K O l1 dst + agg_rhs K O l2 dst)).
    transitivity (agg_rhs K O l1 dst + (dl pk * eta O m dst + agg_rhs K O l2 dst)); [ring|].
    rewrite H. ring.
  Qed.

  (* two messages swapped between different signers *)
  Theorem agg_rhs_swap l1 (pk1 pk2 : pt K Gpk) m1 m2 l2 l3 dst :
    agg_rhs K O (l1 ++ (pk1, m1) :: l2 ++ (pk2, m2) :: l3) dst
    = agg_rhs K O (l1 ++ (pk1, m2) :: l2 ++ (pk2, m1) :: l3) dst ->
    (dl pk1 - dl pk2) * (eta O m1 dst - eta O m2 dst) = 0.
  Proof.
    rewrite !agg_rhs_app. cbn [agg_rhs]. rewrite !agg_rhs_app. cbn [agg_rhs]. intros H.
    set (A := agg_rhs K O l1 dst) in *. set (B := agg_rhs K O l2 dst) in *.
    set (D := agg_rhs K O l3 dst) in *.
    apply (fsub_eq_0 K laws) in H.
    transitivity ((A + (dl pk1 * eta O m1 dst + (B + (dl pk2 * eta O m2 dst + D))))
                  - (A + (dl pk1 * eta O m2 dst + (B + (dl pk2 * eta O m1 dst + D))))); [ring | exact H].
  Qed.

  (* ---------- multi-signatures (C07) ---------- *)
  Definition no_aug (l : list tagged) : Prop := Forall (fun t => tg_scheme t <> Aug) l.

  Lemma multi_loop_ok s0 rest g :
    all_scheme (tg_scheme s0) rest -> tg_scheme s0 <> Aug ->
    multi_loop s0 rest g = Ok (fold_left padd (map tg_pt rest) g).
  Proof.
    revert g. induction rest as [|t rest IH]; intros g H Hna; cbn; [reflexivity|].
    inversion H as [|? ? H1 H2]; subst. unfold same_scheme. rewrite H1.
    rewrite (proj2 (scheme_eqb_eq _ _) eq_refl). cbn.
    destruct (tg_scheme s0) eqn:E; try contradiction; apply IH; assumption.
  Qed.

  Theorem multi_from_sigs_ok s0 s1 rest :
    all_scheme (tg_scheme s0) (s1 :: rest) -> tg_scheme s0 <> Aug ->
    exists p, multi_from_sigs (s0 :: s1 :: rest) = Ok (mktagged (tg_scheme s0) p)
              /\ dl p = dl (psum (map tg_pt (s0 :: s1 :: rest))).
  Proof.
    intros H Hna. unfold multi_from_sigs. cbn [length Nat.ltb Nat.leb].
    rewrite (multi_loop_ok s0 (s1 :: rest) pid H Hna). eexists. split; [reflexivity|].
    cbn [dl padd]. rewrite (fold_padd_dl K laws). cbn [map]. rewrite !(psum_cons K laws).
    cbn [dl pid]. ring.
  Qed.

  Theorem multi_from_sigs_too_few (l : list tagged) :
    (length l < 2)%nat -> multi_from_sigs l = Err InvalidSignature.
  Proof.
    intros H. unfold multi_from_sigs. destruct l as [|a [|b l]]; cbn in *; try reflexivity; lia.
  Qed.

  Lemma multi_loop_err s0 rest g :
    ~ all_scheme (tg_scheme s0) rest \/ tg_scheme s0 = Aug -> rest <> [] ->
    multi_loop s0 rest g = Err InvalidSignatureScheme.
  Proof.
    revert g. induction rest as [|t rest IH]; intros g H Hne; [contradiction|]. cbn.
    unfold same_scheme. destruct (scheme_eqb (tg_scheme t) (tg_scheme s0)) eqn:E; cbn; [|reflexivity].
    apply scheme_eqb_eq in E. destruct (tg_scheme t) eqn:Et; try reflexivity.
    - destruct rest as [|t' rest].
      + exfalso. destruct H as [H|H]; [apply H; constructor; [congruence|constructor] | congruence].
      + apply IH; [|discriminate]. destruct H as [H|H]; [left|right; exact H].
        intros H2. apply H. constructor; [congruence | exact H2].
    - destruct rest as [|t' rest].
      + exfalso. destruct H as [H|H]; [apply H; constructor; [congruence|constructor] | congruence].
      + apply IH; [|discriminate]. destruct H as [H|H]; [left|right; exact H].
        intros H2. apply H. constructor; [congruence | exact H2].
  Qed.

  (* message-augmentation signatures and mixed schemes are refused *)
  Theorem multi_from_sigs_refused s0 s1 rest :
    ~ all_scheme (tg_scheme s0) (s1 :: rest) \/ tg_scheme s0 = Aug ->
    multi_from_sigs (s0 :: s1 :: rest) = Err InvalidSignatureScheme.
  Proof.
    intros H. unfold multi_from_sigs. cbn [length Nat.ltb Nat.leb].
    rewrite (multi_loop_err s0 (s1 :: rest) pid H); [reflexivity | discriminate].
  Qed.

  Theorem multi_pk_is_sum (keys : list (pt K Gpk)) :
    dl (multi_pk_from_public_keys keys) = dl (psum keys).
  Proof.
    unfold multi_pk_from_public_keys, multi_from_public_keys.
    rewrite (fold_padd_dl K laws). cbn. ring.
  Qed.

  Fixpoint sum_f (l : list F) : F := match l with [] => 0 | x :: r => x + sum_f r end.

  Lemma psum_public_keys (sks : list F) : dl (@psum K Gpk (map public_key sks)) = sum_f sks.
  Proof.
    induction sks as [|sk r IH]; [reflexivity|]. cbn [map sum_f]. rewrite (psum_cons K laws), IH.
    cbn. ring.
  Qed.

  Lemma multi_verify_spec (m : tagged) mpk msg :
    multi_verify O C m mpk msg = sig_verify O C m mpk msg.
  Proof. destruct m as [s p]; destruct s; reflexivity. Qed.

  (* completeness: the sum of the signers' signatures verifies under the sum of their keys *)
  Theorem multi_verify_complete s (sks : list F) msg :
    s <> Aug -> sum_f sks <> 0 -> eta O msg (dst_of C s) <> 0 ->
    multi_verify O C (mktagged s (mkpt (eta O msg (dst_of C s) * sum_f sks)))
                 (multi_pk_from_public_keys (map public_key sks)) msg = Ok tt.
  Proof.
    intros Hna Hsum HH. rewrite multi_verify_spec. apply (sig_verify_exact K laws O C).
    cbn [tg_pt tg_scheme dl]. rewrite multi_pk_is_sum, psum_public_keys.
    assert (A : forall pk, Hs K O C s pk msg = eta O msg (dst_of C s)).
    { intros pk. unfold Hs, amsg. destruct s; [reflexivity|contradiction|reflexivity]. }
    rewrite A. repeat split.
    - apply (fmul_neq_0 K laws); assumption.
    - exact Hsum.
    - ring.
  Qed.

  (* when the keys sum to zero the accumulated key is the identity and is rejected (C04) *)
  Theorem multi_verify_zero_sum (m : tagged) (sks : list F) msg :
    sum_f sks = 0 ->
    multi_verify O C m (multi_pk_from_public_keys (map public_key sks)) msg <> Ok tt.
  Proof.
    intros Hsum H. rewrite multi_verify_spec in H. apply (sig_verify_exact K laws O C) in H.
    destruct H as (_ & H & _). apply H. rewrite multi_pk_is_sum, psum_public_keys. exact Hsum.
  Qed.

  (* exactly the signer set: another accumulated key accepts the same multi-signature only if it
     is the same group element (absolute, for Basic / PoP) *)
  Theorem multi_verify_other_key_set s p mpk mpk' msg :
    s <> Aug -> eta O msg (dst_of C s) <> 0 ->
    multi_verify O C (mktagged s p) mpk msg = Ok tt ->
    multi_verify O C (mktagged s p) mpk' msg = Ok tt -> mpk' = mpk.
  Proof.
    intros Hna HH H1 H2. rewrite multi_verify_spec in *.
    apply (sig_verify_exact K laws O C) in H1, H2. cbn [tg_pt tg_scheme] in *.
    assert (A : forall pk, Hs K O C s pk msg = eta O msg (dst_of C s)).
    { intros pk. unfold Hs, amsg. destruct s; [reflexivity|contradiction|reflexivity]. }
    rewrite A in *. destruct H1 as (_ & _ & E1), H2 as (_ & _ & E2).
    apply (pt_eq K). apply (fmul_cancel_r K laws (eta O msg (dst_of C s))); [exact HH | congruence].
  Qed.

  (* hence: a signer missing / added contributes sk = 0; a replaced signer has the same key *)
  Theorem multi_signer_missing (sks1 sks2 : list F) sk :
    @multi_pk_from_public_keys K (map public_key (sks1 ++ sk :: sks2))
    = multi_pk_from_public_keys (map public_key (sks1 ++ sks2)) -> sk = 0.
  Proof.
    intros H. apply (f_equal dl) in H. rewrite !multi_pk_is_sum, !psum_public_keys in H.
    assert (S : forall a b, sum_f (a ++ b) = sum_f a + sum_f b).
    { induction a as [|x a IH]; intros b; cbn; [ring | rewrite IH; ring]. }
    rewrite !S in H. cbn [sum_f] in H.
    apply (fadd_cancel_r K laws _ _ (sum_f sks1 + sum_f sks2)).
    transitivity (sum_f sks1 + (sk + sum_f sks2)); [ring|]. rewrite H. ring.
  Qed.

  Theorem multi_signer_replaced (sks1 sks2 : list F) sk sk' :
    @multi_pk_from_public_keys K (map public_key (sks1 ++ sk :: sks2))
    = multi_pk_from_public_keys (map public_key (sks1 ++ sk' :: sks2)) -> sk = sk'.
  Proof.
    intros H. apply (f_equal dl) in H. rewrite !multi_pk_is_sum, !psum_public_keys in H.
    assert (S : forall a b, sum_f (a ++ b) = sum_f a + sum_f b).
    { induction a as [|x a IH]; intros b; cbn; [ring | rewrite IH; ring]. }
    rewrite !S in H. cbn [sum_f] in H.
    apply (fadd_cancel_r K laws _ _ (sum_f sks1 + sum_f sks2)).
    transitivity (sum_f sks1 + (sk + sum_f sks2)); [ring|]. rewrite H. ring.
  Qed.

  (* another message: only at a hash collision *)
  Theorem multi_verify_other_message s p mpk msg msg' :
    s <> Aug -> dl mpk <> 0 ->
    multi_verify O C (mktagged s p) mpk msg = Ok tt ->
    multi_verify O C (mktagged s p) mpk msg' = Ok tt ->
    eta O msg' (dst_of C s) = eta O msg (dst_of C s).
  Proof.
    intros Hna Hp H1 H2. rewrite multi_verify_spec in *.
    apply (sig_verify_exact K laws O C) in H1, H2. cbn [tg_pt tg_scheme] in *.
    assert (A : forall pk m, Hs K O C s pk m = eta O m (dst_of C s)).
    { intros pk m. unfold Hs, amsg. destruct s; [reflexivity|contradiction|reflexivity]. }
    rewrite !A in *. destruct H1 as (_ & _ & E1), H2 as (_ & _ & E2).
    apply (fmul_cancel_l K laws (dl mpk)); [exact Hp | congruence].
  Qed.
End Aggregate.
