(* C19: the blsful layer depends on the arithmetic backend only through the primitives of the
   oracle record.  If two backends agree on those primitives (extensionally), every deterministic
   operation of the library returns the same result under both. *)
From BV Require Import Alg.Field Alg.Dlog Sem.Base Model.Oracles Model.Helpers Model.Varint
     Model.Core Model.Protocols Model.Api.

Section Backend.
  Context (K : FieldOps) (O1 O2 : Oracles K) (C : Impl).

  (* the two backends compute the same primitives *)
  Record same_primitives : Prop := {
    sp_eta : forall m d, eta O1 m d = eta O2 m d;
    sp_enc_sig : forall a, enc_sig O1 a = enc_sig O2 a;
    sp_enc_pk : forall a, enc_pk O1 a = enc_pk O2 a;
    sp_dec_sig : forall b, dec_sig O1 b = dec_sig O2 b;
    sp_dec_pk : forall b, dec_pk O1 b = dec_pk O2 b;
    sp_repr : forall a, repr O1 a = repr O2 a;
    sp_unrepr : forall b, unrepr O1 b = unrepr O2 b;
    sp_of_u64 : forall x, of_u64 O1 x = of_u64 O2 x;
    sp_extract : forall s i, hkdf_extract O1 s i = hkdf_extract O2 s i;
    sp_expand : forall p i n, hkdf_expand O1 p i n = hkdf_expand O2 p i n;
    sp_okm : forall b, from_okm O1 b = from_okm O2 b
  }.

  Hypothesis SP : same_primitives.

  Lemma enc_same {g} (p : pt K g) : g <> Gt -> enc O1 p = enc O2 p.
  Proof. destruct g; intros H; cbn; [apply (sp_enc_sig SP) | apply (sp_enc_pk SP) | contradiction]. Qed.

  Theorem key_derivation_same data : sk_from_hash O1 data = sk_from_hash O2 data.
  Proof.
    unfold sk_from_hash, hash_to_scalar, scalar_from_hkdf_bytes, hkdf_scalar_raw.
    rewrite (sp_extract SP), (sp_expand SP), (sp_okm SP). reflexivity.
  Qed.

  Theorem core_sign_same sk msg dst : core_sign O1 sk msg dst = core_sign O2 sk msg dst.
  Proof. unfold core_sign, hash_to_point. rewrite (sp_eta SP). reflexivity. Qed.

  Theorem core_verify_same pk sig msg dst : core_verify O1 pk sig msg dst = core_verify O2 pk sig msg dst.
  Proof. unfold core_verify, hash_to_point. rewrite (sp_eta SP). reflexivity. Qed.

  Theorem sign_same sk s msg : sk_sign O1 C sk s msg = sk_sign O2 C sk s msg.
  Proof.
    destruct s; cbn [sk_sign]; unfold basic_sign, aug_sign, pop_sign, pk_bytes.
    - rewrite core_sign_same. reflexivity.
    - rewrite core_sign_same, (enc_same (public_key sk)) by discriminate. reflexivity.
    - rewrite core_sign_same. reflexivity.
  Qed.

  Theorem verify_same (sg : tagged) pk msg : sig_verify O1 C sg pk msg = sig_verify O2 C sg pk msg.
  Proof.
    destruct sg as [s p]. destruct s; cbn [sig_verify tg_scheme tg_pt];
      unfold basic_verify, aug_verify, pop_verify_sig, pk_bytes.
    - apply core_verify_same.
    - rewrite (enc_same pk) by discriminate. apply core_verify_same.
    - apply core_verify_same.
  Qed.

  Theorem pop_same sk : sk_proof_of_possession O1 C sk = sk_proof_of_possession O2 C sk.
  Proof.
    unfold sk_proof_of_possession, pop_prove. rewrite (enc_same (public_key sk)) by discriminate.
    apply core_sign_same.
  Qed.

  Theorem pop_verify_same p pk : pop_wrapper_verify O1 C p pk = pop_wrapper_verify O2 C p pk.
  Proof.
    unfold pop_wrapper_verify, pop_verify. rewrite (enc_same pk) by discriminate. apply core_verify_same.
  Qed.

  Lemma combine_collect_same shares :
    combine_collect O1 (dec_sig O1) shares = combine_collect O2 (dec_sig O2) shares
    /\ combine_collect O1 (dec_pk O1) shares = combine_collect O2 (dec_pk O2) shares
    /\ combine_collect O1 (unrepr O1) shares = combine_collect O2 (unrepr O2) shares.
  Proof.
    induction shares as [|s r (IH1 & IH2 & IH3)]; [repeat split|]. cbn [combine_collect].
    rewrite (sp_dec_sig SP), (sp_dec_pk SP), (sp_unrepr SP), (sp_of_u64 SP), IH1, IH2, IH3. repeat split.
  Qed.

  Theorem share_combination_same shares :
    core_combine_signature_shares O1 shares = core_combine_signature_shares O2 shares
    /\ core_combine_public_key_shares O1 shares = core_combine_public_key_shares O2 shares
    /\ combine_secret_shares O1 shares = combine_secret_shares O2 shares.
  Proof.
    destruct (combine_collect_same shares) as (A & B & D).
    unfold core_combine_signature_shares, core_combine_public_key_shares, combine_secret_shares, combine_shares_with.
    rewrite A, B, D. repeat split.
  Qed.

  Theorem multi_key_same (keys : list (pt K Gpk)) :
    @multi_pk_from_public_keys K keys = multi_pk_from_public_keys keys.
  Proof. reflexivity. Qed.
End Backend.
