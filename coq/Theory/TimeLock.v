(* Time-lock encryption (C13): seal/open round trip, gating, and soundness of opening. *)
From Coq Require Import Ring Field.
From BV Require Import Alg.Field Alg.Dlog Sem.Base Model.Oracles Model.Helpers Model.Varint
     Model.Core Model.Protocols Model.Api Theory.CoreFacts Theory.Schemes Theory.VarintFacts
     Theory.PoK Theory.SignCrypt.

Section TimeLock.
  Context (K : FieldOps) (laws : FieldLaws K) (O : Oracles K) (C : Impl).
  Context (OL : OracleLaws K O (SIG_LEN C) (PK_LEN C)).
  Add Field Kf11 : (K_field K laws).
  Notation F := (car K).
  Notation "0" := (f0 K).
  Infix "+" := (fadd K).
  Infix "*" := (fmul K).
  Infix "-" := (fsub K).
  Notation sigpt := (pt K Gsig).
  Notation pkpt := (pt K Gpk).

  Definition alpha_of (seed : bytes) : F := hkdf_scalar_raw O SALT_TIMELOCK (rng_bytes32 O seed).
  (* r = H_Zq(alpha || SHA-256(message)) *)
  Definition r_tl (alpha_bytes msg : bytes) : F :=
    hkdf_scalar_raw O SALT_TIMELOCK (alpha_bytes ++ sha O msg).
  Definition kmask (k : F) : bytes := sha O (enc_gt O k).

  Definition tl_sealed (pk : pkpt) (msg id dst seed : bytes) : pkpt * bytes * bytes :=
    let a := repr O (alpha_of seed) in
    let r := r_tl a msg in
    let k := eta O id dst * (dl pk * r) in
    (pmul pgen r, xor_zip a (kmask k), xor_zip (frame msg) (xof O a (length (frame msg)))).

  Definition tl_side_conditions dbg (pk : pkpt) (msg id dst seed : bytes) : Prop :=
    let a := repr O (alpha_of seed) in
    alpha_of seed <> 0 /\ r_tl a msg <> 0
    /\ (dbg = true -> dl pk * r_tl a msg <> 0 /\ eta O id dst <> 0
                      /\ all_zero (xof O a (length (frame msg))) = false).

  Lemma hash_to_scalar_val m salt :
    hkdf_scalar_raw O salt m <> 0 -> hash_to_scalar O m salt = Val (hkdf_scalar_raw O salt m).
  Proof.
    intros H. unfold hash_to_scalar, scalar_from_hkdf_bytes.
    rewrite (proj2 (is_zero_s_false K laws _) H). reflexivity.
  Qed.

  Lemma byte_xor_val dbg a b : length a = length b -> byte_xor dbg a b = Val (xor_zip a b).
  Proof. intros H. unfold byte_xor. rewrite dassert_ok; [reflexivity|]. intros _. rewrite H. apply Nat.eqb_refl. Qed.

  Lemma tl_compute_v_val dbg (k : pt K Gt) a :
    length a = 32%nat -> tl_compute_v O dbg k a = Val (xor_zip a (kmask (dl k))).
  Proof.
    intros H. unfold tl_compute_v. cbn [enc]. fold (kmask (dl k)).
    assert (L : length (kmask (dl k)) = 32%nat) by apply (ol_sha_len K O _ _ OL).
    rewrite byte_xor_val by congruence. cbn [bind].
    rewrite xor_zip_length, H, L. reflexivity.
  Qed.

  Lemma tl_compute_w_val dbg a m :
    (dbg = true -> (length m < 32)%nat \/ all_zero (xof O a (length m)) = false) ->
    tl_compute_w O dbg a m = Val (xor_zip m (xof O a (length m))).
  Proof.
    intros H. unfold tl_compute_w. rewrite dassert_ok.
    - apply byte_xor_val. symmetry. apply (ol_xof_len K O _ _ OL).
    - intros E. rewrite (ol_xof_len K O _ _ OL). destruct (H E) as [A|A].
      + apply Nat.ltb_lt in A. rewrite A. reflexivity.
      + rewrite A. apply orb_true_r.
  Qed.

  Theorem tl_seal_spec dbg pk msg id dst seed :
    dl pk <> 0 -> tl_side_conditions dbg pk msg id dst seed ->
    tl_seal O dbg pk msg id dst seed = Val (Ok (tl_sealed pk msg id dst seed)).
  Proof.
    intros Hpk (Ha & Hr & Hd). unfold tl_seal, tl_sealed.
    rewrite (proj2 (is_id_false K laws pk) Hpk).
    rewrite (hash_to_scalar_val _ _ Ha). fold (alpha_of seed). cbn [bind].
    rewrite dassert_ok by (intros _; apply (nz_b K laws); exact Ha).
    rewrite (hash_to_scalar_val _ _ Hr). fold (r_tl (repr O (alpha_of seed)) msg). cbn [bind].
    rewrite dassert_ok by (intros _; apply (nz_b K laws); exact Hr).
    rewrite dassert_ok by (intros E; apply (nid_b K laws); cbn; apply (Hd E)).
    rewrite dassert_ok by (intros E; apply (nid_b K laws); cbn; apply (Hd E)).
    rewrite dassert_ok.
    2:{ intros E. apply (nid_b K laws). destruct (Hd E) as (A & B & _). cbn.
        intros Z. assert (Z' : eta O id dst * (dl pk * r_tl (repr O (alpha_of seed)) msg) = 0).
        { rewrite <- Z. ring. }
        destruct (fmul_integral K laws _ _ Z'); contradiction. }
    rewrite dassert_ok.
    2:{ intros _. apply (nid_b K laws). cbn. rewrite (fmul_1_l K laws). exact Hr. }
    rewrite tl_compute_v_val by apply (ol_repr_len K O _ _ OL). cbn [bind].
    rewrite tl_compute_w_val by (intros E; right; apply (Hd E)). cbn [bind].
    unfold ret_ok. do 4 f_equal. unfold pairing. cbn [dl pairing_dl hash_to_point pmul]. f_equal. f_equal. ring.
  Qed.

  (* ---------- opening ---------- *)
  (* what tl_unseal computes before its final check *)
  Definition recovered_alpha (u : pkpt) (v : bytes) (sig : sigpt) : bytes :=
    xor_zip v (kmask (dl sig * dl u)).

  (* soundness: whatever message is returned, the header U is the hash of what was recovered *)
  Theorem tl_open_sound dbg (u : pkpt) v w (sig : sigpt) valid m' :
    length v = 32%nat ->
    tl_unseal O dbg u v w sig valid = Val (Some m') ->
    valid = true /\ dl sig <> 0 /\ dl u <> 0
    /\ dl u = r_tl (recovered_alpha u v sig) m'.
  Proof.
    intros Lv. unfold tl_unseal.
    rewrite tl_compute_v_val by exact Lv. cbn [bind].
    unfold pairing. cbn [dl pairing_dl].
    replace (dl sig * dl u + 0) with (dl sig * dl u) by ring. fold (recovered_alpha u v sig).
    destruct (tl_compute_w O dbg _ w) as [p| |]; cbn [bind]; try discriminate.
    destruct (unframe true p) as [uf| |]; cbn [bind]; try discriminate.
    destruct uf as [m| |]; try discriminate.
    - unfold hash_to_scalar, scalar_from_hkdf_bytes. fold (r_tl (recovered_alpha u v sig) m).
      destruct (is_zero_s (r_tl _ m)); cbn [bind]; [discriminate|].
      unfold dassert. destruct (dbg && _); [discriminate|].
      destruct (is_id (psub _ u) && valid && _) eqn:E; intros H; inversion H; subst.
      apply andb_true_iff in E. destruct E as [E E3]. apply andb_true_iff in E. destruct E as [E1 E2].
      apply andb_true_iff in E3. destruct E3 as [E3 E4].
      rewrite negb_true_iff in E3, E4.
      apply (is_id_false K laws) in E3, E4. apply (is_id_dl K laws) in E1. cbn in E1.
      repeat split; try assumption.
      apply -> (fsub_eq_0 K laws) in E1. rewrite <- E1. ring.
    - unfold hash_to_scalar, scalar_from_hkdf_bytes. fold (r_tl (recovered_alpha u v sig) []).
      destruct (is_zero_s (r_tl _ [])); cbn [bind]; [discriminate|].
      unfold dassert. destruct (dbg && _); [discriminate|].
      destruct (is_id (psub _ u) && valid && _) eqn:E; intros H; inversion H; subst.
      apply andb_true_iff in E. destruct E as [E E3]. apply andb_true_iff in E. destruct E as [E1 E2].
      apply andb_true_iff in E3. destruct E3 as [E3 E4].
      rewrite negb_true_iff in E3, E4.
      apply (is_id_false K laws) in E3, E4. apply (is_id_dl K laws) in E1. cbn in E1.
      repeat split; try assumption.
      apply -> (fsub_eq_0 K laws) in E1. rewrite <- E1. ring.
  Qed.

  (* scheme mismatch, identity signature, identity U: nothing (absolute) *)
  Corollary tl_gating dbg (u : pkpt) v w (sig : sigpt) valid r :
    length v = 32%nat ->
    valid = false \/ dl sig = 0 \/ dl u = 0 ->
    tl_unseal O dbg u v w sig valid = Val r -> r = None.
  Proof.
    intros Lv Hc H. destruct r as [m'|]; [|reflexivity]. exfalso.
    destruct (tl_open_sound dbg u v w sig valid m' Lv H) as (A & B & D & _).
    destruct Hc as [Hc|[Hc|Hc]]; congruence.
  Qed.

  Theorem tlct_scheme_mismatch_gives_nothing dbg (ct : tl_ct) (sig : tagged) r :
    length (tl_v ct) = 32%nat -> tg_scheme sig <> tl_scheme ct ->
    tlct_decrypt O dbg ct sig = Val r -> r = None.
  Proof.
    intros Lv Hne. unfold tlct_decrypt.
    destruct (scheme_eqb (tg_scheme sig) (tl_scheme ct)) eqn:E.
    - exfalso. apply Hne. destruct (tg_scheme sig), (tl_scheme ct); cbn in E; congruence.
    - apply tl_gating; [exact Lv | left; reflexivity].
  Qed.

  (* round trip: the signature over the identifier opens the ciphertext to exactly the message *)
  Theorem tl_round_trip dbg sk msg id dst seed :
    (N.of_nat (length msg) < 2 ^ 64)%N -> sk <> 0 -> eta O id dst <> 0 ->
    tl_side_conditions dbg (public_key sk) msg id dst seed ->
    let '(u, v, w) := tl_sealed (public_key sk) msg id dst seed in
    tl_unseal O dbg u v w (mkpt (eta O id dst * sk)) true = Val (Some msg).
  Proof.
    intros Hlen Hsk HH (Ha & Hr & Hd). unfold tl_sealed.
    set (a := repr O (alpha_of seed)) in *. set (r := r_tl a msg) in *.
    set (fr := frame msg). set (kk := xof O a (length fr)).
    assert (La : length a = 32%nat) by apply (ol_repr_len K O _ _ OL).
    assert (Lk : forall k, length (kmask k) = 32%nat) by (intros k; apply (ol_sha_len K O _ _ OL)).
    assert (Lkk : length kk = length fr) by apply (ol_xof_len K O _ _ OL).
    unfold tl_unseal.
    rewrite tl_compute_v_val by (rewrite xor_zip_length, La, Lk; reflexivity). cbn [bind].
    unfold pairing. cbn [dl pairing_dl pmul pgen public_key].
    replace (eta O id dst * sk * (f1 K * r) + 0) with (eta O id dst * (f1 K * sk * r)) by ring.
    rewrite xor_zip_involutive by (rewrite La, Lk; reflexivity).
    assert (Lw : length (xor_zip fr kk) = length fr) by (rewrite xor_zip_length; lia).
    rewrite tl_compute_w_val.
    2:{ intros E. right. rewrite Lw. apply (Hd E). }
    cbn [bind]. rewrite Lw. fold kk. rewrite xor_zip_involutive by lia.
    unfold fr. rewrite (unframe_frame true msg Hlen). cbn [bind].
    rewrite (hash_to_scalar_val _ _ Hr). fold r. cbn [bind].
    rewrite dassert_ok by (intros _; apply (nz_b K laws); exact Hr).
    change (hkdf_scalar_raw O SALT_TIMELOCK (a ++ sha O msg)) with r.
    assert (E1 : @is_id K Gpk (psub (pmul pgen r) (pmul pgen r)) = true).
    { apply (is_id_dl K laws). cbn. ring. }
    assert (N1 : negb (@is_id K Gsig (mkpt (eta O id dst * sk))) = true).
    { apply (nid_b K laws). cbn. apply (fmul_neq_0 K laws); assumption. }
    assert (N2 : negb (@is_id K Gpk (pmul pgen r)) = true).
    { apply (nid_b K laws). cbn. rewrite (fmul_1_l K laws). exact Hr. }
    rewrite E1, N1, N2. reflexivity.
  Qed.

  (* through the wrappers, for all three schemes (the message-augmentation identifier carries the
     public-key prefix, so that SecretKey::sign(Aug, id) opens it) *)
  Theorem time_lock_round_trip dbg ent sk s msg id w0 :
    let pk := public_key sk in
    let id' := amsg K O s pk id in
    (N.of_nat (length msg) < 2 ^ 64)%N -> sk <> 0 -> Hs K O C s pk id <> 0 ->
    tl_side_conditions dbg pk msg id' (dst_of C s) (ent w0) ->
    exists ct sg, pk_encrypt_time_lock O C dbg ent pk s msg id w0 = Val (Ok ct, S w0)
                  /\ sk_sign O C sk s id = Ok sg
                  /\ tlct_decrypt O dbg ct sg = Val (Some msg).
  Proof.
    intros pk id' Hlen Hsk HH Hc.
    assert (Hpk : dl pk <> 0) by (cbn; rewrite (fmul_1_l K laws); exact Hsk).
    unfold pk_encrypt_time_lock. rewrite (proj2 (is_id_false K laws pk) Hpk).
    assert (Eid : match s with Aug => pk_bytes O pk ++ id | _ => id end = id').
    { unfold id', amsg, pk_bytes. destruct s; reflexivity. }
    rewrite Eid. rewrite (tl_seal_spec dbg pk msg id' _ _ Hpk Hc). cbn [bind].
    pose proof (tl_round_trip dbg sk msg id' (dst_of C s) (ent w0) Hlen Hsk HH Hc) as RT.
    fold pk in RT. destruct (tl_sealed pk msg id' (dst_of C s) (ent w0)) as [[u v] w] eqn:Es.
    eexists. eexists. split; [reflexivity|]. split.
    - apply (sign_succeeds K laws O C sk s id Hsk).
    - unfold tlct_decrypt. cbn [tg_scheme tl_scheme tg_pt tl_u tl_v tl_w].
      replace (scheme_eqb s s) with true by (destruct s; reflexivity).
      unfold Hs in RT |- *. fold pk. fold id'. exact RT.
  Qed.

  (* an altered ciphertext never yields a different message, short of a hash collision:
     if an honest ciphertext's header U is kept and SOME payload opens to m', the two hash inputs
     (alpha || SHA-256 m) collide under H_Zq *)
  Theorem tl_altered_payload dbg sk msg id dst seed v' w' m' :
    let '(u, v, w) := tl_sealed (public_key sk) msg id dst seed in
    length v' = 32%nat ->
    tl_unseal O dbg u v' w' (mkpt (eta O id dst * sk)) true = Val (Some m') ->
    r_tl (recovered_alpha u v' (mkpt (eta O id dst * sk))) m'
    = r_tl (repr O (alpha_of seed)) msg.
  Proof.
    unfold tl_sealed. intros Lv H.
    destruct (tl_open_sound dbg _ v' w' _ true m' Lv H) as (_ & _ & _ & E).
    cbn [dl pmul pgen] in E. rewrite <- E. ring.
  Qed.

  (* changes confined to w (v unchanged, same signature): the recovered alpha is unchanged, so
     the result is the original message or nothing unless H_Zq or SHA-256 collide *)
  Theorem tl_altered_w_same_alpha dbg sk msg id dst seed w' m' :
    let '(u, v, w) := tl_sealed (public_key sk) msg id dst seed in
    tl_unseal O dbg u v w' (mkpt (eta O id dst * sk)) true = Val (Some m') ->
    r_tl (repr O (alpha_of seed)) m' = r_tl (repr O (alpha_of seed)) msg.
  Proof.
    unfold tl_sealed. intros H.
    set (a := repr O (alpha_of seed)) in *.
    assert (La : length a = 32%nat) by apply (ol_repr_len K O _ _ OL).
    assert (Lk : forall k, length (kmask k) = 32%nat) by (intros k; apply (ol_sha_len K O _ _ OL)).
    assert (Lv : length (xor_zip a (kmask (eta O id dst * (dl (public_key sk) * r_tl a msg)))) = 32%nat).
    { rewrite xor_zip_length, La, Lk. reflexivity. }
    destruct (tl_open_sound dbg _ _ w' _ true m' Lv H) as (_ & _ & _ & E).
    unfold recovered_alpha in E. cbn [dl pmul pgen public_key] in E.
    replace (eta O id dst * sk * (f1 K * r_tl a msg))
      with (eta O id dst * (f1 K * sk * r_tl a msg)) in E by ring.
    rewrite xor_zip_involutive in E by (rewrite La, Lk; reflexivity).
    rewrite <- E. ring.
  Qed.
End TimeLock.
