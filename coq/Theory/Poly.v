(* Polynomials over an abstract field as coefficient lists (constant term first):
   evaluation, linear factors, synthetic division, and the root bound
   "fewer coefficients than distinct roots => the zero function". *)
From Coq Require Import Ring Field.
From BV Require Import Alg.Field Sem.Base.

Section Poly.
  Context (K : FieldOps) (laws : FieldLaws K).
  Add Field Kf6 : (K_field K laws).
  Notation F := (car K).
  Notation "0" := (f0 K).
  Notation "1" := (f1 K).
  Infix "+" := (fadd K).
  Infix "*" := (fmul K).
  Infix "-" := (fsub K).
  Notation "- x" := (fopp K x).

  Definition peval (p : list F) (x : F) : F :=
    fold_right (fun c acc => acc * x + c) 0 p.

  Lemma peval_nil x : peval [] x = 0.  Proof. reflexivity. Qed.
  Lemma peval_cons c p x : peval (c :: p) x = peval p x * x + c.  Proof. reflexivity. Qed.

  Lemma peval_at_0 c p : peval (c :: p) 0 = c.
  Proof. rewrite peval_cons. ring. Qed.

  Fixpoint padd_poly (p q : list F) : list F :=
    match p, q with
    | [], _ => q
    | _, [] => p
    | a :: p', b :: q' => (a + b) :: padd_poly p' q'
    end.

  Definition pscale (c : F) (p : list F) : list F := map (fun a => c * a) p.

  Lemma peval_padd p q x : peval (padd_poly p q) x = peval p x + peval q x.
  Proof.
    revert q. induction p as [|a p IH]; intros [|b q]; cbn [padd_poly]; rewrite ?peval_cons, ?peval_nil.
    - ring.
    - ring.
    - ring.
    - rewrite IH. ring.
  Qed.

  Lemma peval_pscale c p x : peval (pscale c p) x = c * peval p x.
  Proof.
    induction p as [|a p IH]; cbn [pscale map]; rewrite ?peval_cons, ?peval_nil; [ring|].
    fold (pscale c p). rewrite IH. ring.
  Qed.

  Lemma length_padd p q : length (padd_poly p q) = Nat.max (length p) (length q).
  Proof.
    revert q. induction p as [|a p IH]; intros [|b q]; cbn [padd_poly length Nat.max]; try reflexivity.
    rewrite IH. reflexivity.
  Qed.

  Lemma length_pscale c p : length (pscale c p) = length p.
  Proof. apply map_length. Qed.

  (* multiplication by the linear factor (a - X) *)
  Definition mul_lin (a : F) (p : list F) : list F :=
    padd_poly (pscale a p) (0 :: pscale (fopp K 1) p).

  Lemma peval_mul_lin a p x : peval (mul_lin a p) x = (a - x) * peval p x.
  Proof.
    unfold mul_lin. rewrite peval_padd, peval_cons, !peval_pscale. ring.
  Qed.

  Lemma length_mul_lin a p : length (mul_lin a p) = S (length p).
  Proof.
    unfold mul_lin. rewrite length_padd. cbn [length]. rewrite !length_pscale. lia.
  Qed.

  (* prod_{a in l} (a - X) *)
  Fixpoint linprod (l : list F) : list F :=
    match l with [] => [1] | a :: r => mul_lin a (linprod r) end.

  Fixpoint prodl (l : list F) : F := match l with [] => 1 | a :: r => a * prodl r end.

  Lemma peval_linprod l x : peval (linprod l) x = prodl (map (fun a => a - x) l).
  Proof.
    induction l as [|a r IH]; cbn [linprod map prodl].
    - rewrite peval_cons, peval_nil. ring.
    - rewrite peval_mul_lin, IH. ring.
  Qed.

  Lemma length_linprod l : length (linprod l) = S (length l).
  Proof. induction l as [|a r IH]; cbn [linprod length]; [reflexivity|]. rewrite length_mul_lin, IH. reflexivity. Qed.

  Lemma prodl_zero_iff l : prodl l = 0 <-> In 0 l.
  Proof.
    induction l as [|a r IH]; cbn [prodl In].
    - split; [intros H; exfalso; exact (f1_neq_0 K laws H) | intros []].
    - split.
      + intros H. destruct (fmul_integral K laws _ _ H) as [E|E]; [left; exact E | right; apply IH; exact E].
      + intros [E|E]; [rewrite E; ring | apply IH in E; rewrite E; ring].
  Qed.

  Lemma prodl_map_sub_0 l : prodl (map (fun a => a - 0) l) = prodl l.
  Proof. induction l as [|a r IH]; cbn [map prodl]; [reflexivity|]. rewrite IH. ring. Qed.

  (* synthetic division by (X - r) *)
  Fixpoint hq (p : list F) (r : F) : list F * F :=
    (* p is constant-term-first; returns (quotient q, remainder) with
       p(X) = (X - r) q(X) + rem and length q = length p - 1 *)
    match p with
    | [] => ([], 0)
    | c :: p' =>
      let '(q, v) := hq p' r in
      match p' with
      | [] => ([], c)
      | _ => (v :: q, v * r + c)
      end
    end.

  Lemma hq_spec p r :
    (forall x, peval p x = (x - r) * peval (fst (hq p r)) x + snd (hq p r)) /\
    length (fst (hq p r)) = Nat.pred (length p).
  Proof.
    induction p as [|c p IH]; cbn [hq].
    - cbn [fst snd]. split; [intros x; rewrite !peval_nil; ring | reflexivity].
    - destruct (hq p r) as [q v] eqn:E. cbn [fst snd] in IH. destruct IH as [IH1 IH2].
      destruct p as [|c' p'].
      + cbn [fst snd length Nat.pred]. split; [|reflexivity].
        intros x. rewrite peval_cons, !peval_nil. ring.
      + cbn [fst snd]. split.
        * intros x. rewrite peval_cons, (IH1 x), peval_cons. ring.
        * cbn [length Nat.pred] in *. rewrite IH2. reflexivity.
  Qed.

  Lemma hq_rem p r : snd (hq p r) = peval p r.
  Proof.
    destruct (hq_spec p r) as [H _]. specialize (H r).
    rewrite H. ring.
  Qed.

  Theorem roots_bound (rs : list F) :
    NoDup rs ->
    forall p, (forall r, In r rs -> peval p r = 0) -> (length p <= length rs)%nat ->
              forall x, peval p x = 0.
  Proof.
    induction 1 as [|r rs Hnin Hnd IH]; intros p Hroots Hlen x.
    - destruct p; [apply peval_nil | cbn in Hlen; lia].
    - destruct (hq_spec p r) as [Hq Hl].
      assert (Hr : peval p r = 0) by (apply Hroots; left; reflexivity).
      rewrite <- hq_rem in Hr.
      assert (Hq0 : forall y, peval (fst (hq p r)) y = 0).
      { apply IH.
        - intros r' Hin.
          assert (Hp : peval p r' = 0) by (apply Hroots; right; exact Hin).
          rewrite (Hq r'), Hr in Hp.
          assert (Hm : (r' - r) * peval (fst (hq p r)) r' = 0).
          { transitivity ((r' - r) * peval (fst (hq p r)) r' + 0); [ring | exact Hp]. }
          destruct (fmul_integral K laws _ _ Hm) as [E|E]; [|exact E].
          apply -> (fsub_eq_0 K laws) in E. subst. contradiction.
        - rewrite Hl. cbn [length] in Hlen. lia. }
      rewrite (Hq x), Hr, Hq0. ring.
  Qed.
End Poly.
