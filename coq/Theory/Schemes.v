(* Scheme level: SecretKey::sign / Signature::verify / proof of possession, tags. *)
From Coq Require Import Ring Field.
From BV Require Import Alg.Field Alg.Dlog Sem.Base Model.Oracles Model.Helpers Model.Varint
     Model.Core Model.Protocols Model.Api Theory.CoreFacts.

(* ---------- the finite set of tag constants ---------- *)
Definition all_tags : list bytes :=
  [ DST_NUL G1Impl; DST_AUG G1Impl; DST_POPSIG G1Impl; DST_POP G1Impl; ENC_DST G1Impl;
    DST_NUL G2Impl; DST_AUG G2Impl; DST_POPSIG G2Impl; DST_POP G2Impl; ENC_DST G2Impl;
    KEYGEN_SALT; SALT_POK; SALT_SIGNCRYPT; SALT_TIMELOCK; SALT_ELGAMAL ].

Fixpoint nodupb (l : list bytes) : bool :=
  match l with
  | [] => true
  | x :: r => negb (existsb (bytes_eqb x) r) && nodupb r
  end.

Lemma combine_eqb_eq (a b : bytes) :
  length a = length b ->
  forallb (fun p => fst p =? snd p)%N (combine a b) = true -> a = b.
Proof.
  revert b. induction a as [|x a IH]; intros [|y b] Hl Hf; cbn in *; try discriminate.
  - reflexivity.
  - apply andb_true_iff in Hf. destruct Hf as [Hx Hf]. apply N.eqb_eq in Hx. subst.
    f_equal. apply IH; [lia | exact Hf].
Qed.

Lemma combine_eqb_refl (a : bytes) :
  forallb (fun p => fst p =? snd p)%N (combine a a) = true.
Proof. induction a as [|x a IH]; cbn; [reflexivity|]. rewrite N.eqb_refl. exact IH. Qed.

Lemma bytes_eqb_eq a b : bytes_eqb a b = true <-> a = b.
Proof.
  unfold bytes_eqb. split.
  - intros H. apply andb_true_iff in H. destruct H as [Hl Hf]. apply Nat.eqb_eq in Hl.
    apply combine_eqb_eq; assumption.
  - intros ->. rewrite Nat.eqb_refl, combine_eqb_refl. reflexivity.
Qed.

Lemma nodupb_NoDup l : nodupb l = true -> NoDup l.
Proof.
  induction l as [|x r IH]; cbn; intros H; constructor.
  - apply andb_true_iff in H. destruct H as [H _]. apply negb_true_iff in H.
    intros Hin. assert (E : existsb (bytes_eqb x) r = true).
    { apply existsb_exists. exists x. split; [exact Hin | apply bytes_eqb_eq; reflexivity]. }
    congruence.
  - apply IH. apply andb_true_iff in H. apply H.
Qed.

Theorem tags_pairwise_distinct : NoDup all_tags.
Proof. apply nodupb_NoDup. vm_compute. reflexivity. Qed.

(* the signature and proof-of-possession tags are the IETF strings *)
Theorem ietf_tags :
  DST_NUL G1Impl = bs "BLS_SIG_BLS12381G1_XMD:SHA-256_SSWU_RO_NUL_" /\
  DST_AUG G1Impl = bs "BLS_SIG_BLS12381G1_XMD:SHA-256_SSWU_RO_AUG_" /\
  DST_POPSIG G1Impl = bs "BLS_SIG_BLS12381G1_XMD:SHA-256_SSWU_RO_POP_" /\
  DST_POP G1Impl = bs "BLS_POP_BLS12381G1_XMD:SHA-256_SSWU_RO_POP_" /\
  DST_NUL G2Impl = bs "BLS_SIG_BLS12381G2_XMD:SHA-256_SSWU_RO_NUL_" /\
  DST_AUG G2Impl = bs "BLS_SIG_BLS12381G2_XMD:SHA-256_SSWU_RO_AUG_" /\
  DST_POPSIG G2Impl = bs "BLS_SIG_BLS12381G2_XMD:SHA-256_SSWU_RO_POP_" /\
  DST_POP G2Impl = bs "BLS_POP_BLS12381G2_XMD:SHA-256_SSWU_RO_POP_" /\
  KEYGEN_SALT = bs "BLS-SIG-KEYGEN-SALT-" /\ HKDF_INFO = [0; 48]%N.
Proof. repeat split. Qed.

Definition is_std_impl (C : Impl) : Prop := C = G1Impl \/ C = G2Impl.

Lemma dst_of_inj C s s' : is_std_impl C -> dst_of C s = dst_of C s' -> s = s'.
Proof.
  intros [->| ->]; destruct s, s'; cbn; intros H; try reflexivity;
    exfalso; apply (f_equal (fun l => nth 39 l 0%N)) in H; vm_compute in H; discriminate.
Qed.

Lemma dst_pop_not_sig C s : is_std_impl C -> DST_POP C <> dst_of C s.
Proof.
  intros [->| ->]; destruct s; cbn; intros H;
    apply (f_equal (fun l => nth 4 l 0%N)) in H; vm_compute in H; discriminate.
Qed.

Section Schemes.
  Context (K : FieldOps) (laws : FieldLaws K) (O : Oracles K) (C : Impl).
  Add Field Kf4 : (K_field K laws).
  Notation F := (car K).
  Notation "0" := (f0 K).
  Infix "*" := (fmul K).

  (* the byte string that is hashed for a message under a scheme *)
  Definition amsg (s : scheme) (pk : pt K Gpk) (msg : bytes) : bytes :=
    match s with Aug => enc O pk ++ msg | _ => msg end.

  Definition Hs (s : scheme) (pk : pt K Gpk) (msg : bytes) : F :=
    eta O (amsg s pk msg) (dst_of C s).

  Lemma sk_sign_spec sk s msg :
    sk_sign O C sk s msg =
    match core_sign O sk (amsg s (public_key sk) msg) (dst_of C s) with
    | Ok p => Ok (mktagged s p) | Err e => Err e end.
  Proof. destruct s; reflexivity. Qed.

  Lemma sig_verify_spec sg pk msg :
    sig_verify O C sg pk msg =
    core_verify O pk (tg_pt sg) (amsg (tg_scheme sg) pk msg) (dst_of C (tg_scheme sg)).
  Proof. destruct sg as [s p]; destruct s; reflexivity. Qed.

  (* C01: signing succeeds for every non-zero key and message; the result verifies *)
  Theorem sign_succeeds sk s msg :
    sk <> 0 -> sk_sign O C sk s msg = Ok (mktagged s (mkpt (Hs s (public_key sk) msg * sk))).
  Proof. intros H. rewrite sk_sign_spec. unfold Hs. rewrite (core_sign_nonzero K laws O); auto. Qed.

  Theorem sign_zero_key s msg : sk_sign O C 0 s msg = Err SigningError.
  Proof. rewrite sk_sign_spec, (core_sign_zero K laws O). reflexivity. Qed.

  Theorem sign_verify_complete sk s msg sg :
    Hs s (public_key sk) msg <> 0 ->
    sk_sign O C sk s msg = Ok sg ->
    tg_scheme sg = s /\ sig_verify O C sg (public_key sk) msg = Ok tt.
  Proof.
    intros HH Hsg. rewrite sk_sign_spec in Hsg.
    destruct (core_sign O sk _ _) as [p|e] eqn:E; [|discriminate].
    inversion Hsg; subst. split; [reflexivity|].
    rewrite sig_verify_spec. cbn [tg_pt tg_scheme].
    eapply (core_sign_verify K laws O); eassumption.
  Qed.

  (* the degenerate hash value is covered explicitly: the honest signature is then rejected *)
  Theorem sign_verify_degenerate sk s msg sg :
    Hs s (public_key sk) msg = 0 ->
    sk_sign O C sk s msg = Ok sg ->
    sig_verify O C sg (public_key sk) msg = Err InvalidInputs.
  Proof.
    intros HH Hsg. rewrite sk_sign_spec in Hsg.
    destruct (core_sign O sk _ _) as [p|e] eqn:E; [|discriminate].
    inversion Hsg; subst. rewrite sig_verify_spec. cbn [tg_pt tg_scheme].
    eapply (core_sign_verify_degenerate K laws O); eassumption.
  Qed.

  (* C02: exact acceptance condition at the API *)
  Theorem sig_verify_exact sg pk msg :
    sig_verify O C sg pk msg = Ok tt
    <-> dl (tg_pt sg) <> 0 /\ dl pk <> 0
        /\ dl (tg_pt sg) = dl pk * Hs (tg_scheme sg) pk msg.
  Proof. rewrite sig_verify_spec. apply (core_verify_exact K laws O). Qed.

  Theorem sig_verify_unique s p1 p2 pk msg :
    sig_verify O C (mktagged s p1) pk msg = Ok tt ->
    sig_verify O C (mktagged s p2) pk msg = Ok tt -> p1 = p2.
  Proof. rewrite !sig_verify_spec. apply (core_verify_unique K laws O). Qed.

  Theorem sig_verify_only_honest sk s p msg :
    sig_verify O C (mktagged s p) (public_key sk) msg = Ok tt ->
    sk_sign O C sk s msg = Ok (mktagged s p).
  Proof.
    rewrite sig_verify_spec, sk_sign_spec. cbn [tg_pt tg_scheme]. intros H.
    rewrite (core_verify_is_signature K laws O _ _ _ _ H). reflexivity.
  Qed.

  Theorem sig_verify_rejects_other_point sk s sg p' msg :
    sk_sign O C sk s msg = Ok sg -> p' <> tg_pt sg ->
    sig_verify O C (mktagged s p') (public_key sk) msg <> Ok tt.
  Proof.
    intros Hs' Hne Hv. apply sig_verify_only_honest in Hv. rewrite Hv in Hs'.
    inversion Hs'; subst. apply Hne. reflexivity.
  Qed.

  Theorem sig_verify_other_key sk s sg pk' msg :
    s <> Aug -> Hs s (public_key sk) msg <> 0 ->
    sk_sign O C sk s msg = Ok sg ->
    sig_verify O C sg pk' msg = Ok tt -> pk' = public_key sk.
  Proof.
    intros Hna HH Hsg Hv. rewrite sk_sign_spec in Hsg.
    destruct (core_sign O sk _ _) as [p|e] eqn:E; [|discriminate]. inversion Hsg; subst.
    rewrite sig_verify_spec in Hv. cbn [tg_pt tg_scheme] in Hv.
    assert (A : forall pk, amsg s pk msg = msg) by (destruct s; [reflexivity|contradiction|reflexivity]).
    unfold Hs in HH. rewrite A in *.
    eapply (core_verify_other_key K laws O); eassumption.
  Qed.

  (* other message, other length, other scheme label, other key under Aug:
     accepted only at a collision of the hash oracle between the two (input, tag) pairs *)
  Theorem sig_verify_other_input sk s msg sg s' msg' :
    sk_sign O C sk s msg = Ok sg ->
    sig_verify O C (mktagged s' (tg_pt sg)) (public_key sk) msg' = Ok tt ->
    Hs s' (public_key sk) msg' = Hs s (public_key sk) msg.
  Proof.
    intros Hsg Hv. rewrite sk_sign_spec in Hsg.
    destruct (core_sign O sk _ _) as [p|e] eqn:E; [|discriminate]. inversion Hsg; subst.
    rewrite sig_verify_spec in Hv. cbn [tg_pt tg_scheme] in Hv.
    eapply (core_verify_other_message K laws O); eassumption.
  Qed.

  (* ... and the two (input, tag) pairs are different whenever the scheme label differs *)
  Theorem scheme_inputs_differ s s' pk pk' msg msg' :
    is_std_impl C -> s <> s' ->
    (amsg s pk msg, dst_of C s) <> (amsg s' pk' msg', dst_of C s').
  Proof. intros HC Hne E. inversion E as [[E1 E2]]. apply Hne. eapply dst_of_inj; eassumption. Qed.

  Theorem message_inputs_differ s pk msg msg' :
    msg <> msg' -> amsg s pk msg <> amsg s pk msg'.
  Proof.
    intros Hne E. apply Hne. destruct s; cbn in E; try exact E.
    eapply app_inv_head; exact E.
  Qed.

  (* ---------- proof of possession ---------- *)
  Definition Hpop (pk : pt K Gpk) : F := eta O (enc O pk) (DST_POP C).

  Theorem pop_prove_zero : sk_proof_of_possession O C 0 = Err SigningError.
  Proof. unfold sk_proof_of_possession, pop_prove. apply (core_sign_zero K laws O). Qed.

  Theorem pop_complete sk :
    sk <> 0 -> Hpop (public_key sk) <> 0 ->
    exists p, sk_proof_of_possession O C sk = Ok p
              /\ pop_wrapper_verify O C p (public_key sk) = Ok tt.
  Proof.
    intros Hsk HH. unfold sk_proof_of_possession, pop_prove, pop_wrapper_verify, pop_verify.
    rewrite (core_sign_nonzero K laws O) by exact Hsk. eexists. split; [reflexivity|].
    apply (core_verify_exact K laws O). cbn [dl public_key pmul pgen]. repeat split.
    - apply (fmul_neq_0 K laws); assumption.
    - rewrite (fmul_1_l K laws). exact Hsk.
    - unfold Hpop. cbn. ring.
  Qed.

  Theorem pop_verify_exact p pk :
    pop_wrapper_verify O C p pk = Ok tt <-> dl p <> 0 /\ dl pk <> 0 /\ dl p = dl pk * Hpop pk.
  Proof. unfold pop_wrapper_verify, pop_verify. apply (core_verify_exact K laws O). Qed.

  Theorem pop_any_change_rejected sk p p' :
    sk_proof_of_possession O C sk = Ok p -> p' <> p ->
    pop_wrapper_verify O C p' (public_key sk) <> Ok tt.
  Proof.
    unfold sk_proof_of_possession, pop_prove, pop_wrapper_verify, pop_verify.
    intros H1 Hne. eapply (core_verify_rejects_other K laws O); eassumption.
  Qed.

  (* verification under another key: a relation between the hash oracle at two different inputs *)
  Theorem pop_other_key sk p pk' :
    sk_proof_of_possession O C sk = Ok p ->
    pop_wrapper_verify O C p pk' = Ok tt ->
    dl pk' * Hpop pk' = sk * Hpop (public_key sk).
  Proof.
    unfold sk_proof_of_possession, pop_prove. intros H1 H2.
    apply (core_sign_ok_iff K laws O) in H1. destruct H1 as [Hsk ->].
    apply pop_verify_exact in H2. destruct H2 as (_ & _ & E). cbn [dl] in E.
    rewrite <- E. unfold Hpop. ring.
  Qed.

  Theorem pop_inputs_differ sl pl (L : OracleLaws K O sl pl) (pk pk' : pt K Gpk) :
    pk <> pk' -> enc O pk <> enc O pk'.
  Proof.
    intros Hne E. apply Hne. apply (pt_eq K). cbn in E. eapply enc_pk_inj; eassumption.
  Qed.

  (* a signature over the public-key bytes is not a proof of possession, and conversely:
     acceptance needs a collision between the POP tag and a signature tag *)
  Theorem sig_as_pop sk s sg :
    sk_sign O C sk s (enc O (public_key sk)) = Ok sg ->
    pop_wrapper_verify O C (tg_pt sg) (public_key sk) = Ok tt ->
    Hpop (public_key sk) = Hs s (public_key sk) (enc O (public_key sk)).
  Proof.
    intros Hsg Hv. rewrite sk_sign_spec in Hsg.
    destruct (core_sign O sk _ _) as [p|e] eqn:E; [|discriminate]. inversion Hsg; subst.
    unfold pop_wrapper_verify, pop_verify in Hv. cbn [tg_pt] in Hv.
    eapply (core_verify_other_message K laws O); eassumption.
  Qed.

  Theorem pop_as_sig sk p s :
    sk_proof_of_possession O C sk = Ok p ->
    sig_verify O C (mktagged s p) (public_key sk) (enc O (public_key sk)) = Ok tt ->
    Hs s (public_key sk) (enc O (public_key sk)) = Hpop (public_key sk).
  Proof.
    unfold sk_proof_of_possession, pop_prove. intros H1 Hv. rewrite sig_verify_spec in Hv.
    cbn [tg_pt tg_scheme] in Hv.
    eapply (core_verify_other_message K laws O); eassumption.
  Qed.

  Theorem pop_sig_tags_differ s : is_std_impl C -> DST_POP C <> dst_of C s.
  Proof. apply dst_pop_not_sig. Qed.
End Schemes.
