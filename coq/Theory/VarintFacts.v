(* uint-zigzag varint and the length-prefixed framing: round trip for every value / every
   message length, prefix parsing in front of arbitrary trailing bytes, bounded length,
   and totality (no input makes peek / try_from / the slicing in decrypt panic). *)
From BV Require Import Sem.Base Model.Varint.

Local Open Scope N_scope.
Ltac Zify.zify_post_hook ::= Z.div_mod_to_equations.

(* ---------- bit lemmas ---------- *)
Lemma land_low_high a b n : a < 2 ^ n -> N.land a (b * 2 ^ n) = 0.
Proof.
  intros Ha. apply N.bits_inj. intros m. rewrite N.land_spec, N.bits_0.
  destruct (N.lt_ge_cases m n) as [Hm|Hm].
  - rewrite N.mul_pow2_bits_low by exact Hm. apply andb_false_r.
  - replace a with (a mod 2 ^ n) by (apply N.mod_small; exact Ha).
    rewrite N.mod_pow2_bits_high by exact Hm. reflexivity.
Qed.

Lemma lor_low_high a b n : a < 2 ^ n -> N.lor a (b * 2 ^ n) = a + b * 2 ^ n.
Proof.
  intros Ha. pose proof (land_low_high a b n Ha) as H.
  rewrite <- (N.lxor_lor _ _ H). symmetry. apply N.add_nocarry_lxor. exact H.
Qed.

Lemma byte_cont x : N.lor (N.land x 127) 128 = x mod 128 + 128.
Proof.
  change 127 with (N.ones 7). rewrite N.land_ones. change (2 ^ 7) with 128.
  change 128 with (1 * 2 ^ 7) at 2. rewrite lor_low_high; [reflexivity|].
  apply N.mod_lt. discriminate.
Qed.

Lemma land127 b : N.land b 127 = b mod 128.
Proof. change 127 with (N.ones 7). rewrite N.land_ones. reflexivity. Qed.

(* ---------- encode ---------- *)
Lemma varint_enc_fuel_length f x : (length (varint_enc_fuel f x) <= f)%nat.
Proof.
  revert x. induction f as [|f IH]; intros x; cbn [varint_enc_fuel length]; [lia|].
  destruct (x <? 128); cbn [length]; [lia|]. specialize (IH (N.shiftr x 7)). lia.
Qed.

Theorem varint_enc_length x : (1 <= length (varint_enc x) <= 19)%nat.
Proof.
  unfold varint_enc, MAX_BYTES. split; [|apply varint_enc_fuel_length].
  cbn [varint_enc_fuel]. destruct (x <? 128); cbn [length]; lia.
Qed.

Lemma varint_enc_wf f x : wfb (varint_enc_fuel f x).
Proof.
  revert x. induction f as [|f IH]; intros x; cbn [varint_enc_fuel]; [constructor|].
  destruct (x <? 128) eqn:E.
  - apply N.ltb_lt in E. constructor; [lia | constructor].
  - constructor; [|apply IH]. rewrite byte_cont.
    pose proof (N.mod_lt x 128). lia.
Qed.

(* what the first `fuel` steps of encoding look like: all but the last byte are >= 128 *)
Fixpoint all_cont (l : bytes) : Prop :=
  match l with
  | [] => True
  | [b] => b < 128
  | b :: r => 128 <= b < 256 /\ all_cont r
  end.

(* ---------- decode after encode ---------- *)
Lemma shiftl_mod_small b s : b * 2 ^ s < 2 ^ 128 -> N.shiftl b s mod U128 = b * 2 ^ s.
Proof. intros H. rewrite N.shiftl_mul_pow2. apply N.mod_small. exact H. Qed.

Lemma dec_enc_fuel f : forall x acc s rest,
  (0 < f)%nat ->
  x < 2 ^ (7 * N.of_nat f) -> acc < 2 ^ s -> acc + x * 2 ^ s < 2 ^ 128 ->
  varint_dec_fuel f (varint_enc_fuel f x ++ rest) acc s = Some (acc + x * 2 ^ s).
Proof.
  induction f as [|f IH]; intros x acc s rest Hf Hx Hacc Hb.
  - lia.
  - cbn [varint_enc_fuel]. destruct (x <? 128) eqn:E.
    + apply N.ltb_lt in E. cbn [app varint_dec_fuel]. rewrite (proj2 (N.ltb_lt _ _) E).
      rewrite shiftl_mod_small by lia. rewrite lor_low_high by exact Hacc. reflexivity.
    + apply N.ltb_ge in E. cbn [app varint_dec_fuel].
      rewrite byte_cont.
      replace (x mod 128 + 128 <? 128) with false by (symmetry; apply N.ltb_ge; apply N.le_add_l).
      rewrite land127.
      replace ((x mod 128 + 128) mod 128) with (x mod 128).
      2:{ rewrite N.add_mod by discriminate. rewrite N.mod_same by discriminate.
          rewrite N.add_0_r, !N.mod_mod by discriminate. reflexivity. }
      assert (Hdm : x = 128 * (x / 128) + x mod 128) by (apply N.div_mod; discriminate).
      assert (Hlt : x mod 128 < 128) by (apply N.mod_lt; discriminate).
      assert (P7 : 2 ^ (s + 7) = 2 ^ s * 128) by (rewrite N.pow_add_r; reflexivity).
      rewrite shiftl_mod_small.
      2:{ apply N.le_lt_trans with (acc + x * 2 ^ s); [|exact Hb].
          rewrite Hdm at 2. nia. }
      rewrite lor_low_high by exact Hacc.
      rewrite N.shiftr_div_pow2. change (2 ^ 7) with 128.
      assert (Hf' : (0 < f)%nat).
      { destruct f; [|lia]. cbn in Hx. lia. }
      rewrite IH.
      * f_equal. rewrite P7. rewrite Hdm at 3. nia.
      * exact Hf'.
      * apply N.div_lt_upper_bound; [discriminate|].
        replace (7 * N.of_nat (S f)) with (7 + 7 * N.of_nat f) in Hx by lia.
        rewrite N.pow_add_r in Hx. exact Hx.
      * rewrite P7. nia.
      * rewrite P7. rewrite Hdm in Hb at 1. nia.
Qed.

Theorem varint_dec_enc x rest : x < 2 ^ 128 -> varint_dec (varint_enc x ++ rest) = Some x.
Proof.
  intros H. unfold varint_dec, varint_enc, MAX_BYTES.
  rewrite dec_enc_fuel; [f_equal; lia | lia | | | ].
  - apply N.lt_le_trans with (2 ^ 128); [exact H|]. apply N.pow_le_mono_r; [discriminate|]. cbn. lia.
  - cbn. lia.
  - rewrite N.pow_0_r. lia.
Qed.

(* peek finds exactly the encoded prefix, whatever follows *)
Lemma peek_enc_fuel f : forall x rest i,
  (0 < f)%nat ->
  x < 2 ^ (7 * N.of_nat f) ->
  peek_fuel f (varint_enc_fuel f x ++ rest) i = Some (i + length (varint_enc_fuel f x))%nat.
Proof.
  induction f as [|f IH]; intros x rest i Hf Hx.
  - lia.
  - cbn [varint_enc_fuel]. destruct (x <? 128) eqn:E.
    + cbn [app peek_fuel length]. rewrite E. f_equal. lia.
    + cbn [app peek_fuel length]. rewrite byte_cont.
      replace (x mod 128 + 128 <? 128) with false by (symmetry; apply N.ltb_ge; apply N.le_add_l).
      rewrite IH.
      * f_equal. lia.
      * destruct f; [|lia]. cbn in Hx. apply N.ltb_ge in E. lia.
      * rewrite N.shiftr_div_pow2. change (2 ^ 7) with 128.
        apply N.div_lt_upper_bound; [discriminate|].
        replace (7 * N.of_nat (S f)) with (7 + 7 * N.of_nat f) in Hx by lia.
        rewrite N.pow_add_r in Hx. exact Hx.
Qed.

Theorem peek_enc x rest : x < 2 ^ 128 -> peek (varint_enc x ++ rest) = Some (length (varint_enc x)).
Proof.
  intros H. unfold peek, varint_enc, MAX_BYTES. rewrite peek_enc_fuel; [reflexivity | lia |].
  apply N.lt_le_trans with (2 ^ 128); [exact H|]. apply N.pow_le_mono_r; [discriminate|]. cbn. lia.
Qed.

(* ---------- totality: if peek succeeds, try_from on that prefix succeeds (the `unwrap`) ---------- *)
Lemma peek_dec_total f : forall v i acc s n,
  peek_fuel f v i = Some n -> exists x, varint_dec_fuel f (firstn (n - i) v) acc s = Some x.
Proof.
  induction f as [|f IH]; intros v i acc s n H; cbn [peek_fuel] in H; [discriminate|].
  destruct v as [|b v']; [discriminate|].
  destruct (b <? 128) eqn:E.
  - inversion H; subst. replace (S i - i)%nat with 1%nat by lia. cbn [firstn varint_dec_fuel].
    rewrite E. eexists; reflexivity.
  - assert (Hn : (S i < n)%nat).
    { clear - H. revert v' i H. induction f as [|f IH]; intros v i H; cbn in H; [discriminate|].
      destruct v as [|b v]; [discriminate|]. destruct (b <? 128); [inversion H; lia|].
      apply IH in H. lia. }
    replace (n - i)%nat with (S (n - S i)) by lia. cbn [firstn varint_dec_fuel]. rewrite E.
    eapply IH. exact H.
Qed.

Theorem peek_then_try_from_succeeds v overhead :
  peek v = Some overhead -> exists x, varint_dec (firstn overhead v) = Some x.
Proof.
  intros H. unfold peek in H. unfold varint_dec.
  destruct (peek_dec_total MAX_BYTES v 0 0 0 overhead H) as [x Hx].
  rewrite Nat.sub_0_r in Hx. exists x. exact Hx.
Qed.

Lemma peek_fuel_le f : forall v i n, peek_fuel f v i = Some n -> (n <= i + length v)%nat.
Proof.
  induction f as [|f IH]; intros v i n H; cbn in H; [discriminate|].
  destruct v as [|b v]; [discriminate|]. cbn [length]. destruct (b <? 128).
  - inversion H; lia.
  - apply IH in H. lia.
Qed.

Lemma peek_le_length v overhead : peek v = Some overhead -> (overhead <= length v)%nat.
Proof. intros H. apply peek_fuel_le in H. lia. Qed.

(* no byte string makes the prefix parsing / slicing of decrypt or unseal panic *)
Theorem unframe_total canon pt : unframe canon pt <> Panic.
Proof.
  unfold unframe. destruct (peek pt) as [overhead|] eqn:P; [|discriminate].
  destruct (peek_then_try_from_succeeds pt overhead P) as [x Hx]. rewrite Hx.
  destruct (_ && _); discriminate.
Qed.

Theorem unframe_never_loops canon pt : unframe canon pt <> Loop.
Proof.
  unfold unframe. destruct (peek pt) as [overhead|]; [|discriminate].
  destruct (varint_dec _); [|discriminate]. destruct (_ && _); discriminate.
Qed.

(* ---------- framing ---------- *)
Lemma bytes_eqb_v_refl a : bytes_eqb_v a a = true.
Proof. induction a as [|x a IH]; cbn; [reflexivity|]. rewrite N.eqb_refl. exact IH. Qed.

Lemma firstn_app_exact {A} (a b : list A) : firstn (length a) (a ++ b) = a.
Proof. induction a as [|x a IH]; cbn; [reflexivity|]. rewrite IH. reflexivity. Qed.

Lemma skipn_app_exact {A} (a b : list A) : skipn (length a) (a ++ b) = b.
Proof. induction a as [|x a IH]; cbn; [reflexivity|]. exact IH. Qed.

(* unframe recovers exactly the message from  varint(len) || msg || anything  *)
Theorem unframe_frame_gen canon msg tail :
  N.of_nat (length msg) < 2 ^ 64 ->
  unframe canon (varint_enc (N.of_nat (length msg)) ++ msg ++ tail) = Val (UfMsg msg).
Proof.
  intros Hlen. unfold unframe.
  assert (H128 : N.of_nat (length msg) < 2 ^ 128).
  { apply N.lt_trans with (2 ^ 64); [exact Hlen | reflexivity]. }
  rewrite peek_enc by exact H128. rewrite firstn_app_exact.
  pose proof (varint_dec_enc (N.of_nat (length msg)) [] H128) as D. rewrite app_nil_r in D. rewrite D.
  unfold USIZE. rewrite N.mod_small by exact Hlen.
  rewrite bytes_eqb_v_refl, orb_true_r, andb_true_r.
  rewrite !app_length.
  replace (N.of_nat (length msg) <=? _) with true by (symmetry; apply N.leb_le; lia).
  rewrite skipn_app_exact, Nat2N.id, firstn_app_exact. reflexivity.
Qed.

Theorem unframe_frame canon msg :
  N.of_nat (length msg) < 2 ^ 64 -> unframe canon (frame msg) = Val (UfMsg msg).
Proof.
  intros H. unfold frame. rewrite <- app_assoc. apply unframe_frame_gen. exact H.
Qed.

Theorem frame_length msg :
  length (frame msg)
  = Nat.max 32 (length (varint_enc (N.of_nat (length msg))) + length msg).
Proof. unfold frame, repeatN. rewrite !app_length, repeat_length. lia. Qed.

(* boundaries of the prefix length: 1 byte below 128, 2 bytes below 16384, 3 bytes below 2^21 *)
Theorem varint_enc_sizes x :
  (x < 128 -> length (varint_enc x) = 1%nat) /\
  (128 <= x < 16384 -> length (varint_enc x) = 2%nat) /\
  (16384 <= x < 2097152 -> length (varint_enc x) = 3%nat).
Proof.
  unfold varint_enc, MAX_BYTES. repeat split.
  - intros H. cbn [varint_enc_fuel]. rewrite (proj2 (N.ltb_lt _ _) H). reflexivity.
  - intros [H1 H2]. cbn [varint_enc_fuel].
    replace (x <? 128) with false by (symmetry; apply N.ltb_ge; exact H1).
    rewrite N.shiftr_div_pow2. change (2 ^ 7) with 128.
    replace (x / 128 <? 128) with true; [reflexivity|]. symmetry. apply N.ltb_lt.
    apply N.div_lt_upper_bound; [discriminate | exact H2].
  - intros [H1 H2]. cbn [varint_enc_fuel].
    replace (x <? 128) with false by (symmetry; apply N.ltb_ge; lia).
    rewrite !N.shiftr_div_pow2. change (2 ^ 7) with 128.
    replace (x / 128 <? 128) with false.
    2:{ symmetry. apply N.ltb_ge. apply N.div_le_lower_bound; [discriminate | exact H1]. }
    replace (x / 128 / 128 <? 128) with true; [reflexivity|]. symmetry. apply N.ltb_lt.
    apply N.div_lt_upper_bound; [discriminate|]. apply N.div_lt_upper_bound; [discriminate | exact H2].
Qed.
