(* C18 / C03: pinning theorems.  Each states, in closed form, a constant, label order, framing
   rule or layout of the model.  The model is tied to the code by the correspondence run, so a
   change applied consistently to producer and consumer in the code makes the run disagree with
   these pinned definitions. *)
From BV Require Import Alg.Field Alg.Dlog Sem.Base Model.Oracles Model.Helpers Model.Varint
     Model.Core Model.Protocols Model.Api Model.Codec Theory.PoK Theory.SignCrypt Theory.TimeLock
     Theory.ElGamal.

Theorem protocol_salts_pinned :
  SALT_POK = bs "BLS_POK__BLS12381_XOF:HKDF-SHA2-256_" /\
  SALT_SIGNCRYPT = bs "SIGNCRYPT_BLS12381_XOF:HKDF-SHA2-256_" /\
  SALT_TIMELOCK = bs "TIMELOCK_BLS12381_XOF:HKDF-SHA2-256_" /\
  SALT_ELGAMAL = bs "ELGAMAL_BLS12381_XOF:HKDF-SHA2-256_" /\
  KEYGEN_SALT = bs "BLS-SIG-KEYGEN-SALT-".
Proof. repeat split. Qed.

Theorem elgamal_generator_tags_pinned :
  ENC_DST G1Impl = bs "BLS_ELGAMAL_BLS12381G2_XMD:SHA-256_SSWU_RO_NUL_" /\
  ENC_DST G2Impl = bs "BLS_ELGAMAL_BLS12381G1_XMD:SHA-256_SSWU_RO_NUL_".
Proof. split; reflexivity. Qed.

Theorem point_sizes_pinned :
  SIG_LEN G1Impl = 48%nat /\ PK_LEN G1Impl = 96%nat /\ SIG_LEN G2Impl = 96%nat /\ PK_LEN G2Impl = 48%nat.
Proof. repeat split. Qed.

Section Pins.
  Context (K : FieldOps) (O : Oracles K) (C : Impl).

  (* KeyGen / hash_to_scalar: HKDF-Extract(salt, ikm || 0x00), HKDF-Expand(prk, I2OSP(48, 2), 48), OS2IP mod r *)
  Theorem keygen_construction_pinned salt ikm :
    hkdf_scalar_raw O salt ikm
    = from_okm O (hkdf_expand O (hkdf_extract O salt (ikm ++ [0%N])) [0%N; 48%N] 48).
  Proof. reflexivity. Qed.

  Theorem secret_key_from_hash_pinned data :
    sk_from_hash O data = scalar_from_hkdf_bytes O KEYGEN_SALT data.
  Proof. reflexivity. Qed.

  (* length-prefixed framing: varint(len) || msg || zero padding to at least 32 bytes *)
  Theorem framing_pinned msg :
    frame msg = (varint_enc (N.of_nat (length msg)) ++ msg)
                ++ repeatN 0 (32 - length (varint_enc (N.of_nat (length msg)) ++ msg)).
  Proof. reflexivity. Qed.

  (* proof-of-knowledge challenge: H_Zq(compressed(u) || t as 8 little-endian bytes) under the POK salt *)
  Theorem pok_challenge_input_pinned (u : pt K Gsig) t :
    y_raw K O u t = hkdf_scalar_raw O SALT_POK (enc O u ++ le_bytes 8 t).
  Proof. reflexivity. Qed.

  (* signcryption: W is the hash of compressed(U) || V under the scheme tag *)
  Theorem signcrypt_w_input_pinned (u : pt K Gpk) v dst : Hw K O u v dst = eta O (enc O u ++ v) dst.
  Proof. reflexivity. Qed.
  Theorem signcrypt_ephemeral_pinned seed :
    r_of K O seed = hkdf_scalar_raw O SALT_SIGNCRYPT (rng_bytes32 O seed).
  Proof. reflexivity. Qed.
  Theorem signcrypt_keystream_pinned (p : pt K Gpk) n : ks K O p n = xof O (enc O p) n.
  Proof. reflexivity. Qed.

  (* time lock: r = H_Zq(alpha (32 bytes LE) || SHA-256(msg)); V masks alpha with SHA-256(K); W with SHAKE128(alpha) *)
  Theorem time_lock_r_input_pinned a m : r_tl K O a m = hkdf_scalar_raw O SALT_TIMELOCK (a ++ sha O m).
  Proof. reflexivity. Qed.
  Theorem time_lock_mask_pinned k : kmask K O k = sha O (enc_gt O k).
  Proof. reflexivity. Qed.
  Theorem time_lock_sealed_pinned (pk : pt K Gpk) msg id dst seed :
    tl_sealed K O pk msg id dst seed =
    (let a := repr O (alpha_of K O seed) in
     let r := r_tl K O a msg in
     (pmul pgen r,
      xor_zip a (sha O (enc_gt O (fmul K (eta O id dst) (fmul K (dl pk) r)))),
      xor_zip (frame msg) (xof O a (length (frame msg))))).
  Proof. reflexivity. Qed.

  (* ElGamal proof transcript: protocol label, the eight (label, message) pairs in order, challenge label *)
  Theorem elgamal_transcript_pinned (pk gen c1 c2 r1 r2 : pt K Gpk) :
    eg_transcript O pk gen c1 c2 r1 r2 =
    fs O (bs "ElGamalProof")
       [ (bs "dst", bs "ELGAMAL_BLS12381_XOF:HKDF-SHA2-256_");
         (bs "base point", enc O (@pgen K Gpk)); (bs "pk", enc O pk); (bs "generator", enc O gen);
         (bs "c1", enc O c1); (bs "c2", enc O c2); (bs "r1", enc O r1); (bs "r2", enc O r2) ]
       (bs "challenge").
  Proof. reflexivity. Qed.
  Theorem elgamal_generator_pinned :
    message_generator O C = mkpt (eta_pk O (enc O (@pgen K Gpk)) (ENC_DST C)).
  Proof. reflexivity. Qed.

  (* serde_bare layouts: field and variant order, sizes *)
  Theorem layouts_pinned :
    sh_signature C = SEnum 3 (SFixed (SIG_LEN C)) /\
    sh_pok C = SEnum 3 (SPair (SFixed (SIG_LEN C)) (SFixed (SIG_LEN C))) /\
    sh_pok_ts C = SPair (sh_pok C) SU64 /\
    sh_sk_share = SFixed 33 /\
    sh_pk_share C = SFixed (S (PK_LEN C)) /\
    sh_sig_share C = SPair SU8 (SFixed (S (SIG_LEN C))) /\
    sh_sc_ct C = SPair (SFixed (PK_LEN C)) (SPair SBytes (SPair (SFixed (SIG_LEN C)) SU8)) /\
    sh_tl_ct C = SPair (SFixed (PK_LEN C)) (SPair (SFixed 32) (SPair SBytes SU8)) /\
    sh_eg_ct C = SPair (SFixed (PK_LEN C)) (SFixed (PK_LEN C)) /\
    sh_eg_proof C = SPair (sh_eg_ct C) (SPair (SFixed 32) (SPair (SFixed 32) (SFixed 32))) /\
    sh_sk_enum = SPair SU8 (SFixed 32).
  Proof. repeat split. Qed.

  Theorem scheme_numbering_pinned :
    u8_of_scheme Basic = 0%N /\ u8_of_scheme Aug = 1%N /\ u8_of_scheme Pop = 2%N /\
    u8_of_curve CurveG1 = 1%N /\ u8_of_curve CurveG2 = 2%N.
  Proof. repeat split. Qed.
End Pins.
