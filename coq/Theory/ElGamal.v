(* ElGamal in the public-key group with a Fiat-Shamir proof (C14). *)
From Coq Require Import Ring Field.
From BV Require Import Alg.Field Alg.Dlog Sem.Base Model.Oracles Model.Helpers Model.Varint
     Model.Core Model.Protocols Model.Api Theory.CoreFacts Theory.Schemes Theory.PoK
     Theory.Poly Theory.Shamir Theory.Threshold.

Section ElGamal.
  Context (K : FieldOps) (laws : FieldLaws K) (O : Oracles K) (C : Impl).
  Context (OL : OracleLaws K O (SIG_LEN C) (PK_LEN C)).
  Add Field Kf12 : (K_field K laws).
  Notation F := (car K).
  Notation "0" := (f0 K).
  Infix "+" := (fadd K).
  Infix "*" := (fmul K).
  Infix "-" := (fsub K).
  Notation "- x" := (fopp K x).
  Notation pkpt := (pt K Gpk).
  Notation G := (message_generator O C).

  (* ---------- encryption / decryption ---------- *)
  Definition eg_ct_of (pk gen : pkpt) (m b : F) : pkpt * pkpt :=
    (pmul pgen b, padd (pmul pk b) (pmul gen m)).

  Definition eg_side dbg (pk gen : pkpt) (m b : F) : Prop :=
    dbg = true -> b <> 0 /\ dl gen * m <> 0 /\ dl pk * b + dl gen * m <> 0.

  Theorem eg_seal_scalar_spec dbg pk m gen blinder seed k :
    let g := match gen with Some g => g | None => G end in
    let b := match blinder with Some b => b | None => rng_scalar O seed k end in
    dl pk <> 0 -> dl g <> 0 -> eg_side dbg pk g m b ->
    eg_seal_scalar O C dbg pk m gen blinder seed k = Val (Ok (eg_ct_of pk g m b)).
  Proof.
    intros g b Hpk Hg Hs. unfold eg_seal_scalar. fold g. fold b.
    rewrite (proj2 (is_id_false K laws g) Hg), (proj2 (is_id_false K laws pk) Hpk). cbn [orb].
    rewrite dassert_ok by (intros E; apply (nz_b K laws); apply (Hs E)).
    rewrite dassert_ok by (intros E; apply (nid_b K laws); cbn; apply (Hs E)).
    rewrite dassert_ok.
    2:{ intros E. apply (nid_b K laws). cbn. rewrite (fmul_1_l K laws). apply (Hs E). }
    rewrite dassert_ok by (intros E; apply (nid_b K laws); cbn; apply (Hs E)).
    reflexivity.
  Qed.

  Theorem eg_seal_identity_refused dbg pk m gen blinder seed k :
    dl pk = 0 -> eg_seal_scalar O C dbg pk m gen blinder seed k = Val (Err InvalidInputs).
  Proof.
    intros H. unfold eg_seal_scalar. rewrite (proj2 (is_id_dl K laws pk) H), orb_true_r. reflexivity.
  Qed.

  (* decrypting with the matching key gives message * generator *)
  Theorem eg_decrypt_correct sk gen m b :
    let '(c1, c2) := eg_ct_of (public_key sk) gen m b in
    eg_decrypt sk c1 c2 = pmul gen m.
  Proof. unfold eg_ct_of, eg_decrypt. apply (pt_eq K). cbn. ring. Qed.

  (* additively homomorphic *)
  Theorem egct_add_decrypt (a b : @eg_ct K) sk :
    egct_decrypt (egct_add a b) sk = padd (egct_decrypt a sk) (egct_decrypt b sk).
  Proof. unfold egct_decrypt, egct_add, eg_decrypt. apply (pt_eq K). cbn. ring. Qed.

  Definition egct_zero : @eg_ct K := mkegct pid pid.
  Definition egct_sum (l : list (@eg_ct K)) : @eg_ct K := fold_left egct_add l egct_zero.

  Lemma fold_egct_add_decrypt (l : list (@eg_ct K)) acc sk :
    dl (egct_decrypt (fold_left egct_add l acc) sk)
    = dl (egct_decrypt acc sk) + dl (psum (map (fun c => egct_decrypt c sk) l)).
  Proof.
    revert acc. induction l as [|c l IH]; intros acc; cbn [fold_left map].
    - cbn. ring.
    - rewrite IH, egct_add_decrypt, (psum_cons K laws). cbn [dl padd]. ring.
  Qed.

  Theorem sum_of_ciphertexts_decrypts_to_sum (l : list (@eg_ct K)) sk :
    dl (egct_decrypt (egct_sum l) sk) = dl (psum (map (fun c => egct_decrypt c sk) l)).
  Proof. unfold egct_sum. rewrite fold_egct_add_decrypt. cbn. ring. Qed.

  (* with a decryption key recombined from shares: dk = sk * c1 *)
  Theorem egdk_decrypt_correct sk (ct : @eg_ct K) :
    egdk_decrypt (pmul (eg_c1 ct) sk) ct = egct_decrypt ct sk.
  Proof. reflexivity. Qed.

  Theorem egdk_from_shares_correct (EL : EmbedLaw K O) coeffs sk rest (S : list share) (ct : @eg_ct K) :
    coeffs = sk :: rest -> NoDup (map sid S) ->
    (2 <= length S)%nat -> (length coeffs <= length S)%nat ->
    (forall sh, In sh S -> good_id (sid sh)
                           /\ sh = pk_share_of K O coeffs (dl (eg_c1 ct)) (sid sh)) ->
    egdk_from_shares O S = Val (Ok (pmul (eg_c1 ct) sk)).
  Proof. intros. eapply (public_key_shares_recombine K laws O C OL EL); eassumption. Qed.

  (* ---------- the proof ---------- *)
  (* verifier's reconstruction of the commitments *)
  Definition R1 (c1 : pkpt) (ch bp : F) : pkpt := padd (pmul c1 (- ch)) (pmul pgen bp).
  Definition R2 (pk gen c2 : pkpt) (ch mp bp : F) : pkpt :=
    padd (padd (pmul c2 (- ch)) (pmul gen mp)) (pmul pk bp).

  Theorem eg_verify_proof_exact pk gen c1 c2 mp bp ch :
    let g := match gen with Some g => g | None => G end in
    eg_verify_proof O C pk gen c1 c2 mp bp ch = Ok tt
    <-> dl pk <> 0 /\ dl g <> 0 /\ dl c1 <> 0 /\ dl c2 <> 0
        /\ mp <> 0 /\ bp <> 0 /\ ch <> 0
        /\ ch = eg_transcript O pk g c1 c2 (R1 c1 ch bp) (R2 pk g c2 ch mp bp).
  Proof.
    intros g. unfold eg_verify_proof. fold g.
    destruct (is_id pk) eqn:E1.
    { apply (is_id_dl K laws) in E1. cbn. split; [discriminate | intros (H & _); contradiction]. }
    destruct (is_id g) eqn:E2.
    { apply (is_id_dl K laws) in E2. cbn. split; [discriminate | intros (_ & H & _); contradiction]. }
    destruct (is_id c1) eqn:E3.
    { apply (is_id_dl K laws) in E3. cbn. split; [discriminate | intros (_ & _ & H & _); contradiction]. }
    destruct (is_id c2) eqn:E4.
    { apply (is_id_dl K laws) in E4. cbn. split; [discriminate | intros (_ & _ & _ & H & _); contradiction]. }
    cbn [orb].
    destruct (is_zero_s mp) eqn:E5.
    { apply (is_zero_s_true K laws) in E5. cbn. split; [discriminate | intros (_ & _ & _ & _ & H & _); contradiction]. }
    destruct (is_zero_s bp) eqn:E6.
    { apply (is_zero_s_true K laws) in E6. cbn. split; [discriminate | intros (_ & _ & _ & _ & _ & H & _); contradiction]. }
    destruct (is_zero_s ch) eqn:E7.
    { apply (is_zero_s_true K laws) in E7. cbn. split; [discriminate | intros (_ & _ & _ & _ & _ & _ & H & _); contradiction]. }
    cbn [orb].
    apply (is_id_false K laws) in E1, E2, E3, E4.
    apply (is_zero_s_false K laws) in E5, E6, E7.
    fold (R1 c1 ch bp). fold (R2 pk g c2 ch mp bp).
    destruct (feqb K ch _) eqn:E.
    - apply (feqb_true K laws) in E. cbn. split; [intros _|reflexivity]. repeat split; assumption.
    - apply (feqb_false K laws) in E. cbn. split; [discriminate|].
      intros (_ & _ & _ & _ & _ & _ & _ & H). contradiction.
  Qed.

  (* what the honest prover outputs *)
  Definition eg_proof_of (pk gen : pkpt) (m b r : F) : pkpt * pkpt * F * F * F :=
    let '(c1, c2) := eg_ct_of pk gen m b in
    let '(r1, r2) := eg_ct_of pk gen b r in
    let ch := eg_transcript O pk gen c1 c2 r1 r2 in
    (c1, c2, b + ch * m, r + ch * b, ch).

  (* the verifier reconstructs exactly the prover's commitments *)
  Lemma R1_honest (pk gen : pkpt) m b r ch :
    R1 (fst (eg_ct_of pk gen m b)) ch (r + ch * b) = fst (eg_ct_of pk gen b r).
  Proof. unfold R1, eg_ct_of. apply (pt_eq K). cbn. ring. Qed.

  Lemma R2_honest (pk gen : pkpt) m b r ch :
    R2 pk gen (snd (eg_ct_of pk gen m b)) ch (b + ch * m) (r + ch * b) = snd (eg_ct_of pk gen b r).
  Proof. unfold R2, eg_ct_of. apply (pt_eq K). cbn. ring. Qed.

  (* completeness: an honest proof verifies for the recipient key *)
  Theorem eg_proof_complete (pk : pkpt) m b r :
    let '(c1, c2, mp, bp, ch) := eg_proof_of pk G m b r in
    dl pk <> 0 -> dl G <> 0 -> dl c1 <> 0 -> dl c2 <> 0 -> mp <> 0 -> bp <> 0 -> ch <> 0 ->
    eg_verify_proof O C pk None c1 c2 mp bp ch = Ok tt.
  Proof.
    unfold eg_proof_of. cbn [eg_ct_of].
    intros H1 H2 H3 H4 H5 H6 H7. apply eg_verify_proof_exact. cbv zeta.
    repeat split; try assumption.
    pose proof (R1_honest pk G m b r) as A. pose proof (R2_honest pk G m b r) as B.
    cbn [eg_ct_of fst snd] in A, B. rewrite A, B. reflexivity.
  Qed.

  (* ... and decrypts under the recipient secret key *)
  Theorem eg_verify_and_decrypt_complete sk m b r :
    let '(c1, c2, mp, bp, ch) := eg_proof_of (public_key sk) G m b r in
    sk <> 0 -> dl G <> 0 -> dl c1 <> 0 -> dl c2 <> 0 -> mp <> 0 -> bp <> 0 -> ch <> 0 ->
    eg_verify_and_decrypt O C sk None c1 c2 mp bp ch = Ok (pmul G m).
  Proof.
    pose proof (eg_proof_complete (public_key sk) m b r) as P.
    pose proof (eg_decrypt_correct sk G m b) as D.
    unfold eg_proof_of in *. cbn [eg_ct_of] in *.
    intros Hsk H2 H3 H4 H5 H6 H7. unfold eg_verify_and_decrypt.
    rewrite (proj2 (is_zero_s_false K laws sk) Hsk).
    change (pmul (@pgen K Gpk) sk) with (public_key sk).
    rewrite P; try assumption; [|cbn; rewrite (fmul_1_l K laws); exact Hsk].
    rewrite D. reflexivity.
  Qed.

  Theorem eg_verify_and_decrypt_zero_key gen c1 c2 mp bp ch :
    eg_verify_and_decrypt O C 0 gen c1 c2 mp bp ch = Err InvalidInputs.
  Proof.
    unfold eg_verify_and_decrypt. rewrite (proj2 (is_zero_s_true K laws 0) eq_refl). reflexivity.
  Qed.

  (* verify-and-decrypt verifies against the key derived from the supplied secret *)
  Theorem eg_verify_and_decrypt_uses_own_key sk gen c1 c2 mp bp ch p :
    eg_verify_and_decrypt O C sk gen c1 c2 mp bp ch = Ok p ->
    eg_verify_proof O C (public_key sk) gen c1 c2 mp bp ch = Ok tt /\ p = eg_decrypt sk c1 c2.
  Proof.
    unfold eg_verify_and_decrypt. destruct (is_zero_s sk); [discriminate|].
    change (pmul (@pgen K Gpk) sk) with (public_key sk).
    destruct (eg_verify_proof O C (public_key sk) gen c1 c2 mp bp ch) as [[]|e]; [|discriminate].
    intros H; inversion H. split; reflexivity.
  Qed.

  (* a changed challenge with everything else fixed is rejected (absolute) *)
  Theorem eg_other_challenge_same_commitments pk gen c1 c2 mp bp ch mp' bp' ch' :
    let g := match gen with Some g => g | None => G end in
    eg_verify_proof O C pk gen c1 c2 mp bp ch = Ok tt ->
    eg_verify_proof O C pk gen c1 c2 mp' bp' ch' = Ok tt ->
    R1 c1 ch bp = R1 c1 ch' bp' -> R2 pk g c2 ch mp bp = R2 pk g c2 ch' mp' bp' -> ch' = ch.
  Proof.
    intros g V1 V2 E1 E2. apply eg_verify_proof_exact in V1, V2. fold g in V1, V2.
    destruct V1 as (_ & _ & _ & _ & _ & _ & _ & A), V2 as (_ & _ & _ & _ & _ & _ & _ & B).
    rewrite B, A, E1, E2. reflexivity.
  Qed.

  (* ---------- transcript binding ---------- *)
  Definition eg_items (pk gen c1 c2 r1 r2 : pkpt) : list (bytes * bytes) :=
    [ (bs "dst", SALT_ELGAMAL); (bs "base point", enc O (@pgen K Gpk)); (bs "pk", enc O pk);
      (bs "generator", enc O gen); (bs "c1", enc O c1); (bs "c2", enc O c2);
      (bs "r1", enc O r1); (bs "r2", enc O r2) ].

  Theorem eg_transcript_is_fs pk gen c1 c2 r1 r2 :
    eg_transcript O pk gen c1 c2 r1 r2
    = fs O (bs "ElGamalProof") (eg_items pk gen c1 c2 r1 r2) (bs "challenge").
  Proof. reflexivity. Qed.

  (* every public component enters the transcript injectively: a change to the key, the
     generator, the ciphertext or a commitment changes the hashed input *)
  Theorem eg_items_injective pk gen c1 c2 r1 r2 pk' gen' c1' c2' r1' r2' :
    eg_items pk gen c1 c2 r1 r2 = eg_items pk' gen' c1' c2' r1' r2' ->
    pk = pk' /\ gen = gen' /\ c1 = c1' /\ c2 = c2' /\ r1 = r1' /\ r2 = r2'.
  Proof.
    unfold eg_items. intros H. inversion H as [[Hpk Hgen Hc1 Hc2 Hr1 Hr2]].
    assert (I : forall a b : pkpt, enc_pk O (dl a) = enc_pk O (dl b) -> a = b).
    { intros a b E. apply (pt_eq K). eapply enc_pk_inj; eassumption. }
    repeat split; apply I; assumption.
  Qed.

  (* hence: acceptance of a modified (ciphertext / scalar / key) tuple with the SAME challenge
     means the Fiat-Shamir oracle returned that challenge on a different transcript *)
  Theorem eg_modified_needs_fs_collision pk gen c1 c2 mp bp ch pk' c1' c2' mp' bp' :
    let g := match gen with Some g => g | None => G end in
    eg_verify_proof O C pk gen c1 c2 mp bp ch = Ok tt ->
    eg_verify_proof O C pk' gen c1' c2' mp' bp' ch = Ok tt ->
    fs O (bs "ElGamalProof") (eg_items pk g c1 c2 (R1 c1 ch bp) (R2 pk g c2 ch mp bp)) (bs "challenge")
    = fs O (bs "ElGamalProof") (eg_items pk' g c1' c2' (R1 c1' ch bp') (R2 pk' g c2' ch mp' bp')) (bs "challenge").
  Proof.
    intros g V1 V2. apply eg_verify_proof_exact in V1, V2. fold g in V1, V2.
    destruct V1 as (_ & _ & _ & _ & _ & _ & _ & A), V2 as (_ & _ & _ & _ & _ & _ & _ & B).
    rewrite <- !eg_transcript_is_fs. congruence.
  Qed.

  (* with the same key, ciphertext and challenge, the proof scalars are determined by the
     commitments: changing a proof scalar changes a commitment, hence the transcript *)
  Theorem eg_scalars_determined (pk g c1 c2 : pkpt) ch mp bp mp' bp' :
    dl g <> 0 ->
    R1 c1 ch bp = R1 c1 ch bp' -> R2 pk g c2 ch mp bp = R2 pk g c2 ch mp' bp' ->
    bp' = bp /\ mp' = mp.
  Proof.
    intros Hg E1 E2. apply (f_equal dl) in E1, E2. cbn in E1, E2.
    assert (Eb : bp' = bp).
    { apply (fadd_cancel_r K laws _ _ (dl c1 * - ch)).
      transitivity (dl c1 * - ch + f1 K * bp'); [ring|]. rewrite <- E1. ring. }
    split; [exact Eb|]. subst bp'.
    apply (fmul_cancel_l K laws (dl g)); [exact Hg|].
    apply (fadd_cancel_r K laws _ _ (dl c2 * - ch + dl pk * bp)).
    transitivity (dl c2 * - ch + dl g * mp' + dl pk * bp); [ring|]. rewrite <- E2. ring.
  Qed.
End ElGamal.
