(* Signcryption (C11) and its threshold decryption (C12). *)
From Coq Require Import Ring Field.
From BV Require Import Alg.Field Alg.Dlog Sem.Base Model.Oracles Model.Helpers Model.Varint
     Model.Core Model.Protocols Model.Api Theory.CoreFacts Theory.Schemes Theory.VarintFacts
     Theory.PoK Theory.Poly Theory.Shamir Theory.Threshold.

(* ---------- xor ---------- *)
Lemma xor_zip_length a b : length (xor_zip a b) = Nat.min (length a) (length b).
Proof.
  revert b. induction a as [|x a IH]; intros [|y b]; cbn [xor_zip length Nat.min]; try reflexivity.
  rewrite IH. reflexivity.
Qed.

Lemma xor_zip_involutive a b : length a = length b -> xor_zip (xor_zip a b) b = a.
Proof.
  revert b. induction a as [|x a IH]; intros [|y b] H; cbn in *; try reflexivity; try discriminate.
  rewrite N.lxor_assoc, N.lxor_nilpotent, N.lxor_0_r. f_equal. apply IH. lia.
Qed.

Lemma xor_zip_firstn a b n : firstn n (xor_zip a b) = xor_zip (firstn n a) (firstn n b).
Proof.
  revert a b. induction n as [|n IH]; intros [|x a] [|y b]; cbn; try reflexivity.
  rewrite IH. reflexivity.
Qed.

(* two keystreams that decrypt a ciphertext to plaintexts with a common prefix agree there *)
Lemma xor_zip_cancel_prefix v k1 k2 n :
  length k1 = length v -> length k2 = length v ->
  firstn n (xor_zip v k1) = firstn n (xor_zip v k2) -> firstn n k1 = firstn n k2.
Proof.
  revert v k1 k2. induction n as [|n IH]; intros [|x v] [|a k1] [|b k2] H1 H2 H; cbn in *;
    try reflexivity; try discriminate.
  inversion H as [[Hx Hr]]. f_equal.
  - apply (f_equal (N.lxor x)) in Hx. rewrite <- !N.lxor_assoc, N.lxor_nilpotent, !N.lxor_0_l in Hx. exact Hx.
  - eapply IH; [| |exact Hr]; lia.
Qed.

Section SignCrypt.
  Context (K : FieldOps) (laws : FieldLaws K) (O : Oracles K) (C : Impl).
  Context (OL : OracleLaws K O (SIG_LEN C) (PK_LEN C)).
  Add Field Kf10 : (K_field K laws).
  Notation F := (car K).
  Notation "0" := (f0 K).
  Infix "+" := (fadd K).
  Infix "*" := (fmul K).
  Infix "-" := (fsub K).
  Notation sigpt := (pt K Gsig).
  Notation pkpt := (pt K Gpk).

  Definition Hw (u : pkpt) (v dst : bytes) : F := eta O (enc O u ++ v) dst.

  (* ---------- validity ---------- *)
  Theorem sc_valid_exact dbg (u : pkpt) v (w : sigpt) dst :
    (dbg = true -> Hw u v dst <> 0) ->
    exists b, sc_valid O dbg u v w dst = Val b
              /\ (b = true <-> dl u <> 0 /\ dl w <> 0 /\ dl w = dl u * Hw u v dst).
  Proof.
    intros Hh. unfold sc_valid, sc_compute_w, hash_to_point.
    rewrite dassert_ok by (intros E; apply (nid_b K laws); cbn; apply Hh; exact E).
    eexists. split; [reflexivity|].
    unfold pairing, is_id at 1. cbn [dl pairing_dl pneg pgen]. fold (Hw u v dst).
    rewrite !andb_true_iff, !negb_true_iff. rewrite (feqb_true K laws), !(is_id_false K laws).
    split.
    - intros ((E & Hu) & Hwn). repeat split; try assumption.
      apply (fadd_cancel_r K laws _ _ (fopp K (dl w))).
      transitivity 0; [ring|]. rewrite <- E. ring.
    - intros (Hu & Hwn & E). repeat split; try assumption. rewrite E. ring.
  Qed.

  Lemma sc_valid_val dbg u v w dst :
    (dbg = true -> Hw u v dst <> 0) ->
    sc_valid O dbg u v w dst
    = Val (is_id (pairing [(w, pneg pgen); (sc_compute_w O u v dst, u)]) && negb (is_id u) && negb (is_id w)).
  Proof.
    intros Hh. unfold sc_valid.
    rewrite dassert_ok by (intros E; apply (nid_b K laws); cbn; apply Hh; exact E). reflexivity.
  Qed.

  (* a different W for the same (U, V, tag) is invalid: absolute *)
  Theorem sc_valid_unique_w dbg u v (w w' : sigpt) dst :
    (dbg = true -> Hw u v dst <> 0) ->
    sc_valid O dbg u v w dst = Val true -> sc_valid O dbg u v w' dst = Val true -> w' = w.
  Proof.
    intros Hh V1 V2.
    destruct (sc_valid_exact dbg u v w dst Hh) as (b1 & E1 & I1).
    destruct (sc_valid_exact dbg u v w' dst Hh) as (b2 & E2 & I2).
    rewrite E1 in V1. rewrite E2 in V2. inversion V1; inversion V2; subst.
    destruct (proj1 I1 eq_refl) as (_ & _ & A). destruct (proj1 I2 eq_refl) as (_ & _ & B).
    apply (pt_eq K). congruence.
  Qed.

  (* changed U, V (any bit, any length) or scheme tag with the same W: valid only at a relation
     between the hash oracle at two different inputs *)
  Theorem sc_valid_other_input dbg (u u' : pkpt) v v' (w : sigpt) dst dst' :
    (dbg = true -> Hw u v dst <> 0) -> (dbg = true -> Hw u' v' dst' <> 0) ->
    sc_valid O dbg u v w dst = Val true -> sc_valid O dbg u' v' w dst' = Val true ->
    dl u' * Hw u' v' dst' = dl u * Hw u v dst.
  Proof.
    intros Hh Hh' V1 V2.
    destruct (sc_valid_exact dbg u v w dst Hh) as (b1 & E1 & I1).
    destruct (sc_valid_exact dbg u' v' w dst' Hh') as (b2 & E2 & I2).
    rewrite E1 in V1. rewrite E2 in V2. inversion V1; inversion V2; subst.
    destruct (proj1 I1 eq_refl) as (_ & _ & A). destruct (proj1 I2 eq_refl) as (_ & _ & B). congruence.
  Qed.

  Theorem sc_inputs_differ (u u' : pkpt) v v' :
    (u, v) <> (u', v') -> enc O u ++ v <> enc O u' ++ v'.
  Proof.
    intros Hne E. apply Hne.
    assert (L : length (enc O u) = length (enc O u')).
    { cbn. rewrite !(ol_enc_pk_len K O _ _ OL). reflexivity. }
    assert (E1 : enc O u = enc O u').
    { apply (f_equal (firstn (length (enc O u)))) in E.
      rewrite firstn_app_exact in E. rewrite L in E. rewrite firstn_app_exact in E. exact E. }
    rewrite E1 in E. apply app_inv_head in E. subst. f_equal.
    apply (pt_eq K). cbn in E1. eapply enc_pk_inj; eassumption.
  Qed.

  (* ---------- gating: an invalid ciphertext decrypts to nothing, through every path ---------- *)
  Lemma sc_decrypt_invalid dbg v ua :
    forall r, sc_decrypt O dbg v ua false = Val r -> r = None.
  Proof.
    intros r. unfold sc_decrypt. destruct (sc_compute_v O dbg ua v) as [p| |]; cbn [bind]; try discriminate.
    destruct (unframe false p) as [uf| |]; cbn [bind]; try discriminate.
    destruct uf; intros H; inversion H; reflexivity.
  Qed.

  Theorem invalid_never_decrypts dbg (ct : sc_ct) sk r :
    scct_is_valid O C dbg ct = Val false ->
    scct_decrypt O C dbg ct sk = Val r -> r = None.
  Proof.
    unfold scct_is_valid, scct_decrypt, sc_unseal.
    assert (E : match sc_scheme ct with
                | Basic => sc_valid O dbg (sc_u ct) (sc_v ct) (sc_w ct) (DST_NUL C)
                | Aug => sc_valid O dbg (sc_u ct) (sc_v ct) (sc_w ct) (DST_AUG C)
                | Pop => sc_valid O dbg (sc_u ct) (sc_v ct) (sc_w ct) (DST_POPSIG C) end
                = sc_valid O dbg (sc_u ct) (sc_v ct) (sc_w ct) (dst_of C (sc_scheme ct))).
    { destruct (sc_scheme ct); reflexivity. }
    rewrite E. intros ->. cbn [bind]. apply sc_decrypt_invalid.
  Qed.

  Theorem invalid_never_decrypts_with_key dbg (ct : sc_ct) dk r :
    scct_is_valid O C dbg ct = Val false ->
    scdk_decrypt O C dbg dk ct = Val r -> r = None.
  Proof.
    unfold scct_is_valid, scdk_decrypt.
    assert (E : match sc_scheme ct with
                | Basic => sc_valid O dbg (sc_u ct) (sc_v ct) (sc_w ct) (DST_NUL C)
                | Aug => sc_valid O dbg (sc_u ct) (sc_v ct) (sc_w ct) (DST_AUG C)
                | Pop => sc_valid O dbg (sc_u ct) (sc_v ct) (sc_w ct) (DST_POPSIG C) end
                = sc_valid O dbg (sc_u ct) (sc_v ct) (sc_w ct) (dst_of C (sc_scheme ct))).
    { destruct (sc_scheme ct); reflexivity. }
    rewrite E. intros ->. cbn [bind]. apply sc_decrypt_invalid.
  Qed.

  Theorem invalid_never_decrypts_with_shares dbg (ct : sc_ct) shares r :
    scct_is_valid O C dbg ct = Val false ->
    scct_decrypt_with_shares O C dbg ct shares = Val r -> r = None.
  Proof.
    unfold scct_is_valid, scct_decrypt_with_shares, sc_unseal_with_shares.
    assert (E : match sc_scheme ct with
                | Basic => sc_valid O dbg (sc_u ct) (sc_v ct) (sc_w ct) (DST_NUL C)
                | Aug => sc_valid O dbg (sc_u ct) (sc_v ct) (sc_w ct) (DST_AUG C)
                | Pop => sc_valid O dbg (sc_u ct) (sc_v ct) (sc_w ct) (DST_POPSIG C) end
                = sc_valid O dbg (sc_u ct) (sc_v ct) (sc_w ct) (dst_of C (sc_scheme ct))).
    { destruct (sc_scheme ct); reflexivity. }
    rewrite E. intros Hv. destruct (Nat.ltb (length shares) 2); [intros H; inversion H; reflexivity|].
    destruct (core_combine_public_key_shares O shares) as [rr| |]; cbn [bind]; try discriminate.
    destruct rr as [ua|e]; [|intros H; inversion H; reflexivity].
    rewrite Hv. cbn [bind]. apply sc_decrypt_invalid.
  Qed.

  Theorem fewer_than_two_shares_decrypt_nothing dbg (ct : sc_ct) shares :
    (length shares < 2)%nat -> scct_decrypt_with_shares O C dbg ct shares = Val None.
  Proof.
    intros H. unfold scct_decrypt_with_shares, sc_unseal_with_shares.
    replace (Nat.ltb (length shares) 2) with true by (symmetry; apply Nat.ltb_lt; exact H). reflexivity.
  Qed.

  (* ---------- seal, then open ---------- *)
  Definition r_of (seed : bytes) : F := hkdf_scalar_raw O SALT_SIGNCRYPT (rng_bytes32 O seed).
  Definition ks (p : pkpt) (n : nat) : bytes := xof O (enc O p) n.

  (* the ciphertext seal produces, as an explicit function of the drawn seed *)
  Definition sealed (pk : pkpt) (msg dst seed : bytes) : pkpt * bytes * sigpt :=
    let r := r_of seed in
    let u := pmul pgen r in
    let v := xor_zip (frame msg) (ks (pmul pk r) (length (frame msg))) in
    (u, v, pmul (mkpt (Hw u v dst)) r).

  Definition seal_side_conditions dbg (pk : pkpt) (msg dst seed : bytes) : Prop :=
    let '(u, v, w) := sealed pk msg dst seed in
    r_of seed <> 0 /\ Hw u v dst <> 0
    /\ (dbg = true -> all_zero (ks (pmul pk (r_of seed)) (length (frame msg))) = false).

  Lemma frame_len_ge_32 msg : (32 <= length (frame msg))%nat.
  Proof. rewrite frame_length. lia. Qed.

  Lemma sc_compute_v_val dbg (p : pkpt) (r : bytes) :
    (dbg = true -> (length r < 32)%nat \/ all_zero (ks p (length r)) = false) ->
    sc_compute_v O dbg p r = Val (xor_zip r (ks p (length r))).
  Proof.
    intros H. unfold sc_compute_v. fold (ks p (length r)).
    rewrite dassert_ok.
    - unfold byte_xor. rewrite dassert_ok; [reflexivity|].
      intros _. unfold ks. rewrite (ol_xof_len K O _ _ OL). apply Nat.eqb_refl.
    - intros E. unfold ks at 1. rewrite (ol_xof_len K O _ _ OL). destruct (H E) as [A|A].
      + apply Nat.ltb_lt in A. rewrite A. reflexivity.
      + rewrite A. apply orb_true_r.
  Qed.

  Theorem sc_seal_spec dbg pk msg dst seed :
    seal_side_conditions dbg pk msg dst seed ->
    sc_seal O dbg pk msg dst seed = Val (sealed pk msg dst seed).
  Proof.
    unfold seal_side_conditions, sealed. intros (Hr & HH & Hk).
    unfold sc_seal, hash_to_scalar, scalar_from_hkdf_bytes. fold (r_of seed).
    rewrite (proj2 (is_zero_s_false K laws _) Hr). cbn [bind].
    rewrite dassert_ok by (intros _; apply (nz_b K laws); exact Hr).
    rewrite dassert_ok.
    2:{ intros _. apply (nid_b K laws). cbn. rewrite (fmul_1_l K laws). exact Hr. }
    rewrite sc_compute_v_val by (intros E; right; apply Hk; exact E). cbn [bind].
    rewrite dassert_ok.
    2:{ intros _. apply (nid_b K laws). cbn. apply (fmul_neq_0 K laws); assumption. }
    reflexivity.
  Qed.

  (* the sealed ciphertext reports itself valid *)
  Theorem sealed_is_valid dbg pk msg dst seed :
    seal_side_conditions dbg pk msg dst seed ->
    let '(u, v, w) := sealed pk msg dst seed in sc_valid O dbg u v w dst = Val true.
  Proof.
    unfold seal_side_conditions, sealed. intros (Hr & HH & Hk).
    match goal with |- sc_valid O dbg ?u ?v ?w dst = _ =>
      destruct (sc_valid_exact dbg u v w dst (fun _ => HH)) as (b & E & I) end.
    rewrite E. f_equal. apply I. cbn [dl pmul pgen]. repeat split.
    - rewrite (fmul_1_l K laws). exact Hr.
    - apply (fmul_neq_0 K laws); assumption.
    - ring.
  Qed.

  (* decrypting with the matching secret key returns exactly the message, for every length *)
  Theorem seal_unseal dbg sk msg dst seed :
    (N.of_nat (length msg) < 2 ^ 64)%N ->
    seal_side_conditions dbg (public_key sk) msg dst seed ->
    let '(u, v, w) := sealed (public_key sk) msg dst seed in
    sc_unseal O dbg u v w sk dst = Val (Some msg).
  Proof.
    intros Hlen Hc. pose proof (sealed_is_valid dbg _ _ _ _ Hc) as Hv.
    unfold seal_side_conditions, sealed in *. destruct Hc as (Hr & HH & Hk).
    unfold sc_unseal. rewrite Hv. cbn [bind].
    assert (Eua : pmul (pmul (@pgen K Gpk) (r_of seed)) sk = pmul (public_key sk) (r_of seed)).
    { apply (pt_eq K). cbn. ring. }
    rewrite Eua. unfold sc_decrypt.
    set (fr := frame msg) in *. set (kk := ks (pmul (public_key sk) (r_of seed)) (length fr)) in *.
    assert (Lk : length kk = length fr) by (unfold kk, ks; apply (ol_xof_len K O _ _ OL)).
    assert (Lv : length (xor_zip fr kk) = length fr) by (rewrite xor_zip_length; lia).
    rewrite sc_compute_v_val.
    2:{ intros E. right. rewrite Lv. apply Hk. exact E. }
    cbn [bind]. rewrite Lv. fold kk. rewrite xor_zip_involutive by lia.
    unfold fr. rewrite (unframe_frame false msg Hlen). reflexivity.
  Qed.

  (* ... and through the wrapper types, for the scheme carried by the ciphertext *)
  Theorem sign_crypt_round_trip dbg ent sk s msg w0 :
    (N.of_nat (length msg) < 2 ^ 64)%N ->
    seal_side_conditions dbg (public_key sk) msg (dst_of C s) (ent w0) ->
    exists ct, pk_sign_crypt O C dbg ent (public_key sk) s msg w0 = Val (ct, S w0)
               /\ sc_scheme ct = s
               /\ scct_is_valid O C dbg ct = Val true
               /\ scct_decrypt O C dbg ct sk = Val (Some msg)
               /\ scdk_decrypt O C dbg (sk_sign_decryption_key sk ct) ct = Val (Some msg).
  Proof.
    intros Hlen Hc. unfold pk_sign_crypt. rewrite (sc_seal_spec dbg _ _ _ _ Hc).
    pose proof (sealed_is_valid dbg _ _ _ _ Hc) as Hv.
    pose proof (seal_unseal dbg sk msg _ _ Hlen Hc) as Hu.
    destruct (sealed (public_key sk) msg (dst_of C s) (ent w0)) as [[u v] w] eqn:Es.
    cbn [bind]. eexists. split; [reflexivity|]. cbn [sc_scheme]. split; [reflexivity|].
    unfold scct_is_valid, scct_decrypt, scdk_decrypt. cbn [sc_u sc_v sc_w sc_scheme].
    repeat split.
    - destruct s; exact Hv.
    - exact Hu.
    - rewrite Hv. cbn [bind]. unfold sc_unseal in Hu. rewrite Hv in Hu. cbn [bind] in Hu.
      unfold sk_sign_decryption_key. cbn [sc_u]. exact Hu.
  Qed.

  (* ---------- wrong key ---------- *)
  (* if decryption under sk' returns the message, the keystream of sk' agrees with the right one
     on the bytes covering the length prefix and the message (for the empty message: one byte) *)
  Theorem wrong_key_needs_keystream_collision dbg sk sk' msg dst seed :
    (N.of_nat (length msg) < 2 ^ 64)%N ->
    seal_side_conditions dbg (public_key sk) msg dst seed ->
    let '(u, v, w) := sealed (public_key sk) msg dst seed in
    (dbg = true -> all_zero (ks (pmul u sk') (length v)) = false) ->
    forall m', sc_unseal O dbg u v w sk' dst = Val (Some m') ->
    exists pt', pt' = xor_zip v (ks (pmul u sk') (length v))
                /\ unframe false pt' = Val (UfMsg m').
  Proof.
    intros Hlen Hc. pose proof (sealed_is_valid dbg _ _ _ _ Hc) as Hv.
    unfold sealed in *. cbv zeta in *. intros Hk' m' Hu.
    unfold sc_unseal in Hu. rewrite Hv in Hu. cbn [bind] in Hu. unfold sc_decrypt in Hu.
    rewrite sc_compute_v_val in Hu by (intros E; right; apply Hk'; exact E). cbn [bind] in Hu.
    eexists. split; [reflexivity|].
    destruct (unframe false _) as [uf| |] eqn:Eu; cbn [bind] in Hu; try discriminate.
    destruct uf; inversion Hu; subst. reflexivity.
  Qed.

  (* ---------- threshold decryption (C12) ---------- *)
  Context (EL : EmbedLaw K O).

  (* a decryption share of participant i is f(i) * U *)
  Theorem decryption_share_spec (ct : sc_ct) coeffs i :
    scct_create_decryption_share O C ct (share_of K O coeffs i)
    = Ok (pk_share_of K O coeffs (dl (sc_u ct)) i).
  Proof.
    unfold scct_create_decryption_share. apply (public_key_share_with_generator_spec K O C OL).
  Qed.

  Theorem sc_verify_share_exact dbg (sh pk u : pkpt) v (w : sigpt) dst :
    (dbg = true -> Hw u v dst <> 0) ->
    exists b, sc_verify_share O dbg sh pk u v w dst = Val b
              /\ (b = true <-> dl sh <> 0 /\ dl pk <> 0 /\ dl w <> 0
                               /\ dl w * dl pk = Hw u v dst * dl sh).
  Proof.
    intros Hh. unfold sc_verify_share, sc_compute_w, hash_to_point.
    rewrite dassert_ok.
    2:{ intros E. apply (nid_b K laws). cbn. intros Z. apply -> (fopp_eq_0 K laws) in Z. exact (Hh E Z). }
    eexists. split; [reflexivity|].
    unfold pairing, is_id at 4. cbn [dl pairing_dl pneg]. fold (Hw u v dst).
    rewrite !andb_true_iff, !negb_true_iff, !(is_id_false K laws), (feqb_true K laws).
    split.
    - intros (((A & B) & D) & E). repeat split; try assumption.
      apply (fadd_cancel_r K laws _ _ (fopp K (Hw u v dst * dl sh))).
      transitivity 0; [|ring]. rewrite <- E. ring.
    - intros (A & B & D & E). repeat split; try assumption.
      transitivity (dl w * dl pk - Hw u v dst * dl sh); [ring|]. rewrite E. ring.
  Qed.

  (* every participant's share verifies against its own key share, for the ciphertext's scheme *)
  Theorem decryption_share_verifies dbg (ct : sc_ct) coeffs i :
    let dst := dst_of C (sc_scheme ct) in
    (dbg = true -> Hw (sc_u ct) (sc_v ct) dst <> 0) ->
    sc_valid O dbg (sc_u ct) (sc_v ct) (sc_w ct) dst = Val true ->
    peval K coeffs (of_u64 O i) <> 0 ->
    sds_verify O C dbg (pk_share_of K O coeffs (dl (sc_u ct)) i)
               (pk_share_of K O coeffs (f1 K) i) ct = Val (Ok tt).
  Proof.
    intros dst Hh Hv Hf. unfold sds_verify, share_as_pk. cbn [sval pk_share_of].
    rewrite !(ol_dec_enc_pk K O _ _ OL). fold dst.
    destruct (sc_valid_exact dbg (sc_u ct) (sc_v ct) (sc_w ct) dst Hh) as (b & Eb & Ib). rewrite Eb in Hv. inversion Hv; subst b.
    destruct (proj1 Ib eq_refl) as (Hu & Hw0 & Ew).
    destruct (sc_verify_share_exact dbg (mkpt (dl (sc_u ct) * peval K coeffs (of_u64 O i)))
                (mkpt (f1 K * peval K coeffs (of_u64 O i))) (sc_u ct) (sc_v ct) (sc_w ct) dst Hh)
      as (b & Eb' & Ib').
    rewrite Eb'. cbn [bind].
    replace b with true; [reflexivity|]. symmetry. apply Ib'. cbn [dl]. repeat split.
    - apply (fmul_neq_0 K laws); assumption.
    - rewrite (fmul_1_l K laws). exact Hf.
    - exact Hw0.
    - rewrite Ew. ring.
  Qed.

  (* against another participant's key share: only if the two share values coincide *)
  Theorem decryption_share_other_participant dbg (ct : sc_ct) coeffs i j :
    let dst := dst_of C (sc_scheme ct) in
    (dbg = true -> Hw (sc_u ct) (sc_v ct) dst <> 0) ->
    sc_valid O dbg (sc_u ct) (sc_v ct) (sc_w ct) dst = Val true ->
    Hw (sc_u ct) (sc_v ct) dst <> 0 ->
    sds_verify O C dbg (pk_share_of K O coeffs (dl (sc_u ct)) i)
               (pk_share_of K O coeffs (f1 K) j) ct = Val (Ok tt) ->
    peval K coeffs (of_u64 O j) = peval K coeffs (of_u64 O i).
  Proof.
    intros dst Hh Hv HH. unfold sds_verify, share_as_pk. cbn [sval pk_share_of].
    rewrite !(ol_dec_enc_pk K O _ _ OL). fold dst.
    destruct (sc_valid_exact dbg (sc_u ct) (sc_v ct) (sc_w ct) dst Hh) as (b & Eb & Ib). rewrite Eb in Hv. inversion Hv; subst b.
    destruct (proj1 Ib eq_refl) as (Hu & Hw0 & Ew).
    destruct (sc_verify_share_exact dbg (mkpt (dl (sc_u ct) * peval K coeffs (of_u64 O i)))
                (mkpt (f1 K * peval K coeffs (of_u64 O j))) (sc_u ct) (sc_v ct) (sc_w ct) dst Hh)
      as (b & Eb' & Ib').
    rewrite Eb'. cbn [bind]. destruct b; [|discriminate]. intros _.
    destruct (proj1 Ib' eq_refl) as (_ & _ & _ & E). cbn [dl] in E. rewrite Ew in E.
    apply (fmul_cancel_l K laws (dl (sc_u ct) * Hw (sc_u ct) (sc_v ct) dst)).
    - apply (fmul_neq_0 K laws); assumption.
    - transitivity (dl (sc_u ct) * Hw (sc_u ct) (sc_v ct) dst * (f1 K * peval K coeffs (of_u64 O j))); [ring|].
      rewrite E. ring.
  Qed.

  (* t or more distinct shares decrypt to the original message, directly and through a
     combined decryption key *)
  Theorem threshold_decrypt dbg sk rest coeffs msg dst seed (S : list share) s :
    (N.of_nat (length msg) < 2 ^ 64)%N ->
    coeffs = sk :: rest -> dst = dst_of C s ->
    seal_side_conditions dbg (public_key sk) msg dst seed ->
    let '(u, v, w) := sealed (public_key sk) msg dst seed in
    NoDup (map sid S) -> (2 <= length S)%nat -> (length coeffs <= length S)%nat ->
    (forall sh, In sh S -> good_id (sid sh) /\ sh = pk_share_of K O coeffs (dl u) (sid sh)) ->
    scct_decrypt_with_shares O C dbg (mkscct u v w s) S = Val (Some msg)
    /\ exists dk, scdk_from_shares O S = Val (Ok dk)
                  /\ scdk_decrypt O C dbg dk (mkscct u v w s) = Val (Some msg).
  Proof.
    intros Hlen Ec Ed Hc. pose proof (sealed_is_valid dbg _ _ _ _ Hc) as Hv.
    pose proof (seal_unseal dbg sk msg _ _ Hlen Hc) as Hu.
    destruct (sealed (public_key sk) msg dst seed) as [[u v] w] eqn:Es.
    intros Hnd H2 Hl HS.
    pose proof (public_key_shares_recombine K laws O C OL EL coeffs sk rest S u Ec Hnd H2 Hl HS) as Hcomb.
    unfold sc_unseal in Hu. rewrite Hv in Hu. cbn [bind] in Hu.
    split.
    - unfold scct_decrypt_with_shares, sc_unseal_with_shares. cbn [sc_u sc_v sc_w sc_scheme].
      replace (Nat.ltb (length S) 2) with false by (symmetry; apply Nat.ltb_ge; lia).
      rewrite Hcomb. cbn [bind]. rewrite <- Ed, Hv. cbn [bind]. exact Hu.
    - exists (pmul u sk). split; [exact Hcomb|].
      unfold scdk_decrypt. cbn [sc_u sc_v sc_w sc_scheme]. rewrite <- Ed, Hv. cbn [bind]. exact Hu.
  Qed.
End SignCrypt.
