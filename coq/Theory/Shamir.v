(* Shamir sharing as vsss-rs computes it (C08): Lagrange interpolation at 0 recovers the
   constant term from any >= t distinct shares; linear in the shared value; fewer than t
   shares leave the constant term undetermined. *)
From Coq Require Import Ring Field.
From BV Require Import Alg.Field Alg.Dlog Sem.Base Model.Oracles Model.Helpers Model.Core
     Model.Api Theory.Poly.

Section Shamir.
  Context (K : FieldOps) (laws : FieldLaws K).
  Add Field Kf7 : (K_field K laws).
  Notation F := (car K).
  Notation "0" := (f0 K).
  Notation "1" := (f1 K).
  Infix "+" := (fadd K).
  Infix "*" := (fmul K).
  Infix "-" := (fsub K).
  Notation "/ x" := (finv K x).
  Notation peval := (peval K).
  Notation prodl := (prodl K).
  Notation linprod := (linprod K).

  (* ---------- prod_others: products over all positions but i ---------- *)
  Fixpoint skip_at (k : nat) (l : list F) {struct l} : list F :=
    match l with
    | [] => []
    | x :: r => match k with 0%nat => r | S k' => x :: skip_at k' r end
    end.

  Definition subs (xi : F) (l : list F) : list F := map (fun a => a - xi) l.

  Lemma pair_eq (a b c d : F) : a = c -> b = d -> (a, b) = (c, d).
  Proof. intros -> ->. reflexivity. Qed.

  Lemma prod_others_lt xs i xi j :
    (i < j)%nat -> prod_others (K:=K) xs i xi j = (prodl xs, prodl (subs xi xs)).
  Proof.
    revert j. induction xs as [|x r IH]; intros j Hlt; cbn [prod_others]; [reflexivity|].
    rewrite (IH (S j)) by lia.
    destruct (Nat.eqb i j) eqn:E; [apply Nat.eqb_eq in E; lia|].
    apply pair_eq; unfold subs; cbn [map Poly.prodl]; ring.
  Qed.

  Lemma prod_others_ge xs i xi j k :
    i = (j + k)%nat ->
    prod_others (K:=K) xs i xi j = (prodl (skip_at k xs), prodl (subs xi (skip_at k xs))).
  Proof.
    revert j k. induction xs as [|x r IH]; intros j k Hi; cbn [prod_others skip_at]; [reflexivity|].
    destruct k as [|k'].
    - replace (Nat.eqb i j) with true by (symmetry; apply Nat.eqb_eq; lia).
      rewrite (prod_others_lt r i xi (S j)) by lia. reflexivity.
    - replace (Nat.eqb i j) with false by (symmetry; apply Nat.eqb_neq; lia).
      rewrite (IH (S j) k') by lia. apply pair_eq; unfold subs; cbn [map Poly.prodl]; ring.
  Qed.

  Lemma skip_at_split (pre post : list F) x :
    skip_at (length pre) (pre ++ x :: post) = pre ++ post.
  Proof. induction pre as [|a pre IH]; cbn; [reflexivity|]. rewrite IH. reflexivity. Qed.

  Definition basis_val (others : list F) (xi : F) : F :=
    prodl others * / prodl (subs xi others).

  Lemma prodl_subs_nonzero others xi : ~ In xi others -> prodl (subs xi others) <> 0.
  Proof.
    intros Hnin H. apply (prodl_zero_iff K laws) in H. unfold subs in H.
    apply in_map_iff in H. destruct H as (a & E & Hin).
    apply -> (fsub_eq_0 K laws) in E. subst. contradiction.
  Qed.

  Lemma lagrange_basis_val (pre post : list F) xi :
    ~ In xi (pre ++ post) ->
    lagrange_basis (pre ++ xi :: post) (length pre) xi = Val (basis_val (pre ++ post) xi).
  Proof.
    intros Hnin. unfold lagrange_basis.
    rewrite (prod_others_ge _ _ _ 0 (length pre)) by lia. rewrite skip_at_split.
    rewrite (proj2 (is_zero_s_false K laws _) (prodl_subs_nonzero _ _ Hnin)). reflexivity.
  Qed.

  (* ---------- interpolate = sum of y_i * basis_i ---------- *)
  Fixpoint lsum (pre suf : list (F * F)) : F :=
    match suf with
    | [] => 0
    | (xi, yi) :: post =>
      yi * basis_val (map fst pre ++ map fst post) xi + lsum (pre ++ [(xi, yi)]) post
    end.

  Lemma NoDup_mid_notin (pre post : list F) x : NoDup (pre ++ x :: post) -> ~ In x (pre ++ post).
  Proof. intros H. apply NoDup_remove_2 in H. exact H. Qed.

  Lemma interpolate_from_split pre suf acc :
    NoDup (map fst (pre ++ suf)) ->
    interpolate_from (map fst (pre ++ suf)) suf (length pre) acc = Val (acc + lsum pre suf).
  Proof.
    revert pre acc. induction suf as [|[xi yi] post IH]; intros pre acc Hnd; cbn [interpolate_from lsum].
    - f_equal. ring.
    - rewrite map_app in *. cbn [map fst] in *.
      replace (length pre) with (length (map fst pre)) by apply map_length.
      rewrite lagrange_basis_val by (apply NoDup_mid_notin; exact Hnd).
      cbn [bind]. rewrite map_length.
      specialize (IH (pre ++ [(xi, yi)])).
      rewrite <- app_assoc in IH. cbn [app] in IH. rewrite map_app in IH. cbn [map fst] in IH.
      rewrite app_length in IH. cbn [length] in IH.
      replace (S (length pre)) with (length pre + 1)%nat by lia.
      rewrite IH by exact Hnd. f_equal. ring.
  Qed.

  Theorem interpolate_is_lagrange_sum sh :
    NoDup (map fst sh) -> interpolate sh = Val (lsum [] sh).
  Proof.
    intros H. unfold interpolate. pose proof (interpolate_from_split [] sh 0 H) as E.
    cbn [app length] in E. rewrite E. f_equal. ring.
  Qed.

  (* ---------- the interpolating polynomial ---------- *)
  Fixpoint qpoly (pre suf : list (F * F)) : list F :=
    match suf with
    | [] => []
    | (xi, yi) :: post =>
      let others := map fst pre ++ map fst post in
      padd_poly K (pscale K (yi * / prodl (subs xi others)) (linprod others))
                  (qpoly (pre ++ [(xi, yi)]) post)
    end.

  Lemma qpoly_at_0 pre suf : peval (qpoly pre suf) 0 = lsum pre suf.
  Proof.
    revert pre. induction suf as [|[xi yi] post IH]; intros pre; cbn [qpoly lsum]; [reflexivity|].
    rewrite (peval_padd K laws), (peval_pscale K laws), (peval_linprod K laws), IH.
    rewrite (prodl_map_sub_0 K laws). unfold basis_val. ring.
  Qed.

  Lemma linprod_vanishes others x : In x others -> peval (linprod others) x = 0.
  Proof.
    intros H. rewrite (peval_linprod K laws). apply (prodl_zero_iff K laws).
    apply in_map_iff. exists x. split; [ring | exact H].
  Qed.

  Lemma qpoly_eval pre suf :
    NoDup (map fst (pre ++ suf)) ->
    forall x, (forall y, In (x, y) suf -> peval (qpoly pre suf) x = y)
              /\ (In x (map fst pre) -> peval (qpoly pre suf) x = 0).
  Proof.
    revert pre. induction suf as [|[xi yi] post IH]; intros pre Hnd x; cbn [qpoly].
    - split; [intros y [] | intros _; reflexivity].
    - assert (Hnd' : NoDup (map fst ((pre ++ [(xi, yi)]) ++ post))).
      { rewrite <- app_assoc. exact Hnd. }
      destruct (IH _ Hnd' x) as [IH1 IH2].
      rewrite map_app in Hnd. cbn [map fst] in Hnd.
      pose proof (NoDup_mid_notin _ _ _ Hnd) as Hnin.
      rewrite (peval_padd K laws), (peval_pscale K laws).
      split.
      + intros y [E|Hin].
        * inversion E; subst x y.
          rewrite IH2 by (rewrite map_app; apply in_or_app; right; left; reflexivity).
          rewrite (peval_linprod K laws). fold (subs xi (map fst pre ++ map fst post)).
          pose proof (prodl_subs_nonzero _ _ Hnin) as Hd.
          transitivity (yi * (/ prodl (subs xi (map fst pre ++ map fst post))
                              * prodl (subs xi (map fst pre ++ map fst post)))); [ring|].
          rewrite (finv_l K laws _ Hd). ring.
        * rewrite (IH1 y Hin).
          rewrite linprod_vanishes; [ring|].
          apply in_or_app. right. apply in_map_iff. exists (x, y). split; [reflexivity | exact Hin].
      + intros Hin.
        rewrite IH2 by (rewrite map_app; apply in_or_app; left; exact Hin).
        rewrite linprod_vanishes; [ring|]. apply in_or_app. left. exact Hin.
  Qed.

  Lemma length_qpoly pre suf : (length (qpoly pre suf) <= length pre + length suf)%nat.
  Proof.
    revert pre. induction suf as [|[xi yi] post IH]; intros pre; cbn [qpoly length]; [lia|].
    rewrite (length_padd K), (length_pscale K), (length_linprod K), app_length, !map_length.
    specialize (IH (pre ++ [(xi, yi)])). rewrite app_length in IH. cbn [length] in IH. lia.
  Qed.

  (* ---------- Lagrange interpolation at 0 recovers p(0) ---------- *)
  Theorem interpolate_correct (p : list F) (sh : list (F * F)) :
    NoDup (map fst sh) ->
    (forall x y, In (x, y) sh -> y = peval p x) ->
    (length p <= length sh)%nat ->
    interpolate sh = Val (peval p 0).
  Proof.
    intros Hnd Hy Hlen. rewrite (interpolate_is_lagrange_sum sh Hnd). f_equal.
    rewrite <- qpoly_at_0.
    set (d := padd_poly K (qpoly [] sh) (pscale K (fopp K 1) p)).
    assert (Hd : forall x, peval d x = 0).
    { apply (roots_bound K laws (map fst sh) Hnd).
      - intros r Hin. apply in_map_iff in Hin. destruct Hin as ([x y] & E & Hin). cbn in E. subst r.
        unfold d. rewrite (peval_padd K laws), (peval_pscale K laws).
        destruct (qpoly_eval [] sh Hnd x) as [Q _]. rewrite (Q y Hin), (Hy x y Hin). ring.
      - unfold d. rewrite (length_padd K), (length_pscale K), map_length.
        pose proof (length_qpoly [] sh). cbn [length] in *. lia. }
    specialize (Hd 0). unfold d in Hd. rewrite (peval_padd K laws), (peval_pscale K laws) in Hd.
    apply (fadd_cancel_r K laws _ _ (fopp K 1 * peval p 0)). rewrite Hd. ring.
  Qed.

  Lemma has_dup_x_false (xs : list F) : NoDup xs -> has_dup_x (K:=K) xs = false.
  Proof.
    induction 1 as [|x r Hnin Hnd IH]; cbn [has_dup_x]; [reflexivity|].
    rewrite IH, orb_false_r. destruct (existsb _ r) eqn:E; [|reflexivity].
    apply existsb_exists in E. destruct E as (y & Hy & E). apply (feqb_true K laws) in E. subst.
    contradiction.
  Qed.

  Lemma has_dup_x_true (xs : list F) : ~ NoDup xs -> has_dup_x (K:=K) xs = true.
  Proof.
    induction xs as [|x r IH]; intros H; [exfalso; apply H; constructor|]. cbn [has_dup_x].
    destruct (existsb (fun y => feqb K x y) r) eqn:E; [reflexivity|]. cbn.
    apply IH. intros Hnd. apply H. constructor; [|exact Hnd].
    intros Hin. assert (E' : existsb (fun y => feqb K x y) r = true).
    { apply existsb_exists. exists x. split; [exact Hin | apply (feqb_refl K laws)]. }
    congruence.
  Qed.

  (* ---------- fewer than t shares leave the secret undetermined ---------- *)
  Theorem below_threshold_undetermined (p : list F) (xs : list F) :
    (length xs < length p)%nat -> (forall x, In x xs -> x <> 0) ->
    exists p', length p' = length p
               /\ (forall x, In x xs -> peval p' x = peval p x)
               /\ peval p' 0 <> peval p 0.
  Proof.
    intros Hlen Hnz. exists (padd_poly K p (linprod xs)). repeat split.
    - rewrite (length_padd K), (length_linprod K). lia.
    - intros x Hin. rewrite (peval_padd K laws), (linprod_vanishes xs x Hin). ring.
    - rewrite (peval_padd K laws), (peval_linprod K laws), (prodl_map_sub_0 K laws).
      intros E.
      assert (Z : prodl xs = 0).
      { apply (fadd_cancel_r K laws _ _ (peval p 0)). transitivity (peval p 0 + prodl xs); [ring|].
        rewrite E. ring. }
      apply (prodl_zero_iff K laws) in Z. exact (Hnz 0 Z eq_refl).
  Qed.

  (* no function of the shares at fewer than t points computes the secret for every polynomial *)
  Corollary no_combiner_below_threshold (t : nat) (xs : list F) :
    (length xs < t)%nat -> (forall x, In x xs -> x <> 0) ->
    ~ exists g : list (F * F) -> F,
        forall p, length p = t -> g (map (fun x => (x, peval p x)) xs) = peval p 0.
  Proof.
    intros Hlen Hnz [g Hg].
    set (p := repeat 0 t).
    assert (Lp : length p = t) by apply repeat_length.
    destruct (below_threshold_undetermined p xs) as (p' & L' & Hsame & Hdiff); [lia | exact Hnz |].
    apply Hdiff. rewrite <- (Hg p' (eq_trans L' Lp)), <- (Hg p Lp). f_equal.
    apply map_ext_in. intros x Hin. rewrite (Hsame x Hin). reflexivity.
  Qed.
End Shamir.
