(* C20: every randomized operation draws fresh randomness.
   The process-wide entropy source is a sequence ent : nat -> seed; the i-th call of
   get_crypto_rng() returns a generator seeded with ent i; a world is the number of draws so far.
   A history is any list of randomized API calls, folded over the world. *)
From Coq Require Import Ring Field.
From BV Require Import Alg.Field Alg.Dlog Sem.Base Model.Oracles Model.Helpers Model.Varint
     Model.Core Model.Protocols Model.Api Theory.CoreFacts Theory.Schemes Theory.PoK
     Theory.SignCrypt Theory.TimeLock Theory.ElGamal.

Section World.
  Context (K : FieldOps) (laws : FieldLaws K) (O : Oracles K) (C : Impl) (dbg : bool).
  Add Field Kf14 : (K_field K laws).
  Notation F := (car K).
  Notation pkpt := (pt K Gpk).

  Inductive rcall : Type :=
  | RKeyNew                                              (* SecretKey::new / BlsSignature::new_secret_key *)
  | RChallengeNew                                        (* ProofCommitmentChallenge::new *)
  | RSplit (sk : F) (t n : nat)                          (* SecretKey::split *)
  | RSignCrypt (pk : pkpt) (s : scheme) (msg : bytes)    (* PublicKey::sign_crypt *)
  | RTimeLock (pk : pkpt) (s : scheme) (msg id : bytes)  (* PublicKey::encrypt_time_lock *)
  | RElGamal (pk : pkpt) (m : F)                         (* PublicKey::encrypt_key_el_gamal *)
  | RElGamalProof (pk : pkpt) (m : F)                    (* PublicKey::encrypt_key_el_gamal_with_proof *)
  | RCommit (msg : bytes) (sig : @tagged K)              (* ProofCommitment::generate *)
  | RPokTs (msg : bytes) (sig : @tagged K) (now : N).    (* ProofOfKnowledgeTimestamp::generate *)

  Inductive rout : Type :=
  | OScalar (x : F) | OShares (r : res (list share)) | OSc (ct : @sc_ct K) | OTl (r : res (@tl_ct K))
  | OEg (r : res (@eg_ct K)) | OEgP (r : res (@eg_proof K)) | OCommit (r : res (@tagged K * F))
  | OPokTs (r : res (@pok_ts K)).

  Variable ent : nat -> bytes.

  Definition step (w : nat) (c : rcall) : M (rout * nat) :=
    match c with
    | RKeyNew => '(x, w') <- sk_new O ent w ;; Val (OScalar x, w')
    | RChallengeNew => '(x, w') <- challenge_new O ent w ;; Val (OScalar x, w')
    | RSplit sk t n => '(r, w') <- sk_split_entropy O ent sk t n w ;; Val (OShares r, w')
    | RSignCrypt pk s msg => '(ct, w') <- pk_sign_crypt O C dbg ent pk s msg w ;; Val (OSc ct, w')
    | RTimeLock pk s msg id => '(r, w') <- pk_encrypt_time_lock O C dbg ent pk s msg id w ;; Val (OTl r, w')
    | RElGamal pk m => '(r, w') <- pk_encrypt_key_el_gamal O C dbg ent pk m w ;; Val (OEg r, w')
    | RElGamalProof pk m => '(r, w') <- pk_encrypt_key_el_gamal_with_proof O C dbg ent pk m w ;; Val (OEgP r, w')
    | RCommit msg sig => '(r, w') <- pc_generate O C ent msg sig w ;; Val (OCommit r, w')
    | RPokTs msg sig now => '(r, w') <- pokts_generate O C dbg ent msg sig now w ;; Val (OPokTs r, w')
    end.

  Fixpoint run (w : nat) (cs : list rcall) : M (list rout * nat) :=
    match cs with
    | [] => Val ([], w)
    | c :: cs' => '(o, w1) <- step w c ;; '(os, w2) <- run w1 cs' ;; Val (o :: os, w2)
    end.

  (* the only call that can return without a randomized operation having been performed:
     encryption to the identity key, refused before anything is drawn *)
  Definition refused_before_draw (c : rcall) : Prop :=
    match c with
    | RTimeLock pk _ _ _ => dl pk = f0 K
    | RPokTs _ sig _ => dl (tg_pt sig) = f0 K
    | _ => False
    end.

  Lemma draw_nonzero_scalar_advances fuel w x w' :
    draw_nonzero_scalar O ent fuel w = Val (x, w') -> (w < w')%nat.
  Proof.
    revert w. induction fuel as [|f IH]; intros w H; cbn in H; [discriminate|].
    destruct (is_zero_s _); [apply IH in H; lia | inversion H; lia].
  Qed.

  (* every randomized entry point consumes at least one fresh entropy index *)
  Theorem step_draws w c o w' :
    step w c = Val (o, w') -> ~ refused_before_draw c -> (w < w')%nat.
  Proof.
    intros H Hn. destruct c; cbn [step] in H.
    - unfold sk_new in H. destruct (hash_to_scalar O _ _); cbn in H; inversion H; lia.
    - unfold challenge_new, sk_new in H. destruct (hash_to_scalar O _ _); cbn in H; inversion H; lia.
    - unfold sk_split_entropy in H. destruct (sk_split O sk t n (ent w)); cbn in H; inversion H; lia.
    - unfold pk_sign_crypt in H. destruct (sc_seal O dbg pk msg _ (ent w)) as [[[u v] wp]| |]; cbn in H; inversion H; lia.
    - unfold pk_encrypt_time_lock in H. cbn in Hn. destruct (is_id pk) eqn:E.
      + apply (is_id_dl K laws) in E. contradiction.
      + destruct (tl_seal O dbg pk msg _ _ (ent w)); cbn in H; inversion H; lia.
    - unfold pk_encrypt_key_el_gamal in H. destruct (eg_seal_scalar O C dbg pk m None None (ent w) 0); cbn in H; inversion H; lia.
    - unfold pk_encrypt_key_el_gamal_with_proof in H. destruct (eg_seal_scalar_with_proof O C dbg pk m None None (ent w)); cbn in H; inversion H; lia.
    - unfold pc_generate, generate_commitment in H.
      destruct (draw_nonzero_scalar O ent RETRY_FUEL w) as [[x w1]| |] eqn:E; cbn in H; try discriminate.
      inversion H; subst. eapply draw_nonzero_scalar_advances; eassumption.
    - unfold pokts_generate, generate_timestamp_proof in H. cbn in Hn.
      destruct (is_id (tg_pt sig)) eqn:E.
      { apply (is_id_dl K laws) in E. contradiction. }
      destruct (draw_nonzero_scalar O ent RETRY_FUEL w) as [[x w1]| |] eqn:D; cbn [bind] in H; try discriminate.
      pose proof (draw_nonzero_scalar_advances _ _ _ _ D) as Hlt.
      unfold dassert in H.
      repeat match type of H with
             | context [if ?c then Panic else _] => destruct c; cbn [bind] in H; try discriminate
             end.
      destruct (generate_timestamp_based_y O _ now) as [[y t]| |]; cbn [bind] in H; try discriminate.
      repeat match type of H with
             | context [if ?c then Panic else _] => destruct c; cbn [bind] in H; try discriminate
             end.
      inversion H; subst. exact Hlt.
  Qed.

  (* no call ever moves the draw counter backwards *)
  Theorem step_nondecreasing w c o w' : step w c = Val (o, w') -> (w <= w')%nat.
  Proof.
    intros H. destruct c; try (apply step_draws in H; [lia | cbn; tauto]).
    - (* time lock *) cbn [step] in H. unfold pk_encrypt_time_lock in H. destruct (is_id pk).
      + cbn in H. inversion H; lia.
      + destruct (tl_seal O dbg pk msg _ _ (ent w)); cbn in H; inversion H; lia.
    - (* timestamp proof *) cbn [step] in H. unfold pokts_generate, generate_timestamp_proof in H.
      destruct (is_id (tg_pt sig)) eqn:E.
      + cbn in H. inversion H; lia.
      + assert (Hn : ~ refused_before_draw (RPokTs msg sig now)).
        { cbn. apply (is_id_false K laws). exact E. }
        assert (H' : step w (RPokTs msg sig now) = Val (o, w')).
        { cbn [step]. unfold pokts_generate, generate_timestamp_proof. rewrite E. exact H. }
        apply step_draws in H'; [lia | exact Hn].
  Qed.

  (* a history decomposes at every position *)
  Theorem run_split cs1 c cs2 : forall w os w',
    run w (cs1 ++ c :: cs2) = Val (os, w') ->
    exists o1 w1 o w2 o2,
      run w cs1 = Val (o1, w1) /\ step w1 c = Val (o, w2) /\ run w2 cs2 = Val (o2, w')
      /\ os = o1 ++ o :: o2.
  Proof.
    induction cs1 as [|c0 cs1 IH]; intros w os w' H; cbn [app run] in H.
    - destruct (step w c) as [[o w2]| |] eqn:E; cbn [bind] in H; try discriminate.
      destruct (run w2 cs2) as [[o2 w3]| |] eqn:E2; cbn [bind] in H; try discriminate.
      inversion H; subst. exists [], w, o, w2, o2. repeat split; assumption.
    - destruct (step w c0) as [[o0 w0]| |] eqn:E; cbn [bind] in H; try discriminate.
      destruct (run w0 (cs1 ++ c :: cs2)) as [[os' w3]| |] eqn:E2; cbn [bind] in H; try discriminate.
      inversion H; subst. destruct (IH _ _ _ E2) as (o1 & w1 & o & w2 & o2 & A & B & D & Eo).
      exists (o0 :: o1), w1, o, w2, o2. cbn [run]. rewrite E. cbn [bind]. rewrite A. cbn [bind].
      repeat split; try assumption. rewrite Eo. reflexivity.
  Qed.

  Theorem run_nondecreasing cs : forall w os w', run w cs = Val (os, w') -> (w <= w')%nat.
  Proof.
    induction cs as [|c cs IH]; intros w os w' H; cbn [run] in H.
    - inversion H; lia.
    - destruct (step w c) as [[o w1]| |] eqn:E; cbn [bind] in H; try discriminate.
      destruct (run w1 cs) as [[os' w2]| |] eqn:E2; cbn [bind] in H; try discriminate.
      inversion H; subst. apply step_nondecreasing in E. apply IH in E2. lia.
  Qed.

  (* FRESHNESS: in any history, of any length, two different calls consume disjoint ranges of
     entropy indices [a1, b1) and [a2, b2), and each range is non-empty unless the call was refused
     before anything randomized happened *)
  Theorem history_draws_are_fresh cs1 c1 cs2 c2 cs3 w os w' :
    run w (cs1 ++ c1 :: cs2 ++ c2 :: cs3) = Val (os, w') ->
    exists a1 b1 a2 b2 o1 o2,
      step a1 c1 = Val (o1, b1) /\ step a2 c2 = Val (o2, b2)
      /\ (b1 <= a2)%nat
      /\ (~ refused_before_draw c1 -> (a1 < b1)%nat)
      /\ (~ refused_before_draw c2 -> (a2 < b2)%nat).
  Proof.
    intros H. destruct (run_split cs1 c1 (cs2 ++ c2 :: cs3) w os w' H)
      as (p1 & a1 & o1 & b1 & rest & R1 & S1 & R2 & _).
    destruct (run_split cs2 c2 cs3 b1 rest w' R2) as (p2 & a2 & o2 & b2 & r3 & R3 & S2 & _ & _).
    exists a1, b1, a2, b2, o1, o2. repeat split; try assumption.
    - eapply run_nondecreasing; eassumption.
    - intros Hn. eapply step_draws; eassumption.
    - intros Hn. eapply step_draws; eassumption.
  Qed.

  (* each single-draw entry point is a function of exactly the seed at its own index *)
  Theorem single_draw_calls_use_their_index w :
    (forall pk s msg, pk_sign_crypt O C dbg ent pk s msg w
       = ('(u, v, wp) <- sc_seal O dbg pk msg (dst_of C s) (ent w) ;; Val (mkscct u v wp s, S w)))
    /\ (forall pk m, pk_encrypt_key_el_gamal O C dbg ent pk m w
       = (r <- eg_seal_scalar O C dbg pk m None None (ent w) 0 ;;
          Val (match r with Ok (c1, c2) => Ok (mkegct c1 c2) | Err e => Err e end, S w)))
    /\ (forall sk t n, sk_split_entropy O ent sk t n w = (r <- sk_split O sk t n (ent w) ;; Val (r, S w)))
    /\ (sk_new O ent w = (s <- hash_to_scalar O (rng_bytes32 O (ent w)) KEYGEN_SALT ;; Val (s, S w))).
  Proof. repeat split. Qed.
End World.

(* ---------- the ephemeral values are injective images of the scalar derived from the drawn seed:
   two calls share an ephemeral point only if the derived scalars coincide (equal seeds, or a
   collision of the HKDF-based derivation / of the generator's output) ---------- *)
Section Ephemerals.
  Context (K : FieldOps) (laws : FieldLaws K) (O : Oracles K) (C : Impl).
  Add Field Kf15 : (K_field K laws).

  Lemma pmul_gen_inj {g} (a b : car K) : @pmul K g pgen a = pmul pgen b -> a = b.
  Proof.
    intros H. apply (f_equal dl) in H. cbn in H.
    transitivity (fmul K (f1 K) a); [ring|]. rewrite H. ring.
  Qed.

  Theorem signcrypt_ephemeral_point pk msg dst seed pk' msg' dst' seed' :
    fst (fst (sealed K O pk msg dst seed)) = fst (fst (sealed K O pk' msg' dst' seed')) ->
    r_of K O seed = r_of K O seed'.
  Proof. unfold sealed. cbn [fst]. apply pmul_gen_inj. Qed.

  Theorem time_lock_ephemeral_point pk msg id dst seed pk' msg' id' dst' seed' :
    fst (fst (tl_sealed K O pk msg id dst seed)) = fst (fst (tl_sealed K O pk' msg' id' dst' seed')) ->
    r_tl K O (repr O (alpha_of K O seed)) msg = r_tl K O (repr O (alpha_of K O seed')) msg'.
  Proof. unfold tl_sealed. cbn [fst]. apply pmul_gen_inj. Qed.

  Theorem elgamal_ephemeral_point (pk gen : pt K Gpk) m b pk' gen' m' b' :
    fst (eg_ct_of K pk gen m b) = fst (eg_ct_of K pk' gen' m' b') -> b = b'.
  Proof. unfold eg_ct_of. cbn [fst]. apply pmul_gen_inj. Qed.

  (* the signcryption ephemeral is derived from the seed through the generator stream and HKDF only *)
  Theorem signcrypt_ephemeral_derivation seed :
    r_of K O seed = hkdf_scalar_raw O SALT_SIGNCRYPT (rng_bytes32 O seed).
  Proof. reflexivity. Qed.
End Ephemerals.
