(* C17: the consuming entry points return (a value, none or an error) for every input:
   no panic, no non-termination, in builds with and without debug assertions.
   Functions of result / option type contain no panicking construct at all (they are pure in the
   model because the Rust code has none); the theorems below cover the ones that could. *)
From Coq Require Import Ring Field.
From BV Require Import Alg.Field Alg.Dlog Sem.Base Model.Oracles Model.Helpers Model.Varint
     Model.Core Model.Protocols Model.Api Model.Codec Theory.CoreFacts Theory.Schemes Theory.Aggregate
     Theory.Poly Theory.Shamir Theory.Threshold Theory.VarintFacts Theory.PoK Theory.SignCrypt
     Theory.TimeLock.

Definition returns {A} (m : M A) : Prop := m <> Panic /\ m <> Loop.

Lemma returns_val {A} (a : A) : returns (Val a).
Proof. split; discriminate. Qed.

Section Total.
  Context (K : FieldOps) (laws : FieldLaws K) (O : Oracles K) (C : Impl).
  Context (OL : OracleLaws K O (SIG_LEN C) (PK_LEN C)).
  Notation F := (car K).

  (* ---------- share combination: the Lagrange denominator is never zero when it is used ---------- *)
  Lemma has_dup_x_false_NoDup (xs : list F) : has_dup_x (K:=K) xs = false -> NoDup xs.
  Proof.
    induction xs as [|x r IH]; cbn [has_dup_x]; intros H; constructor.
    - apply orb_false_iff in H. destruct H as [H _]. intros Hin.
      assert (E : existsb (fun y => feqb K x y) r = true).
      { apply existsb_exists. exists x. split; [exact Hin | apply (feqb_refl K laws)]. }
      congruence.
    - apply IH. apply orb_false_iff in H. apply H.
  Qed.

  Theorem combine_returns dec (shares : list share) : returns (combine_shares_with O dec shares).
  Proof.
    unfold combine_shares_with. destruct (Nat.ltb _ 2); [apply returns_val|].
    destruct (combine_collect O dec shares) as [vals|e]; [|apply returns_val].
    destruct (has_dup_x (map fst vals)) eqn:D; [apply returns_val|].
    rewrite (interpolate_is_lagrange_sum K laws vals (has_dup_x_false_NoDup _ D)). apply returns_val.
  Qed.

  Theorem combine_public_key_shares_returns shares : returns (core_combine_public_key_shares O shares).
  Proof.
    unfold core_combine_public_key_shares. destruct (combine_returns (dec_pk O) shares) as [A B].
    destruct (combine_shares_with O (dec_pk O) shares); [apply returns_val | contradiction | contradiction].
  Qed.

  Theorem combine_signature_shares_returns shares : returns (core_combine_signature_shares O shares).
  Proof.
    unfold core_combine_signature_shares. destruct (combine_returns (dec_sig O) shares) as [A B].
    destruct (combine_shares_with O (dec_sig O) shares); [apply returns_val | contradiction | contradiction].
  Qed.

  (* Signature::from_shares: `shares[0]` is only reached after combination succeeded (>= 2 shares) *)
  Theorem sig_from_shares_returns (shares : list tagged_share) : returns (sig_from_shares O shares).
  Proof.
    unfold sig_from_shares. destruct (negb _); [apply returns_val|].
    destruct (combine_signature_shares_returns (map ts_share shares)) as [A B].
    destruct (core_combine_signature_shares O (map ts_share shares)) as [[sg|e]| |] eqn:E;
      cbn [bind_res bind]; try contradiction; [|apply returns_val].
    destruct shares as [|s0 r]; [|apply returns_val].
    exfalso. cbn in E. unfold core_combine_signature_shares, combine_shares_with in E. cbn in E. discriminate.
  Qed.

  (* ---------- aggregate verification ---------- *)
  Theorem aggregate_verify_returns dbg (a : tagged) data :
    (dbg = true -> hashes_nonzero K O (eff_data K O (tg_scheme a) data) (dst_of C (tg_scheme a))) ->
    returns (aggregate_verify O C dbg a data).
  Proof.
    intros Hh. destruct a as [s p]. cbn [tg_scheme] in Hh.
    assert (G : forall pks dst, (dbg = true -> hashes_nonzero K O pks dst) ->
                                returns (core_aggregate_verify O dbg pks p dst)).
    { intros pks dst H. unfold core_aggregate_verify. destruct (is_id p); [apply returns_val|].
      destruct (agg_pairs_spec K laws O dbg pks dst [] H) as [A1 A2].
      assert (D : no_id_pk K pks \/ ~ no_id_pk K pks).
      { unfold no_id_pk. clear - laws. induction pks as [|[pk m] r IH]; [left; constructor|].
        destruct (feq_dec K laws (dl pk) (f0 K)) as [E|E].
        - right. intros H. inversion H; subst. cbn in *. contradiction.
        - destruct IH as [IH|IH]; [left; constructor; assumption | right].
          intros H. inversion H; subst. contradiction. }
      destruct D as [D|D].
      - destruct (A1 D) as (l & El & _). rewrite El. cbn [bind_res bind]. destruct (is_id _); apply returns_val.
      - rewrite (A2 D). apply returns_val. }
    unfold aggregate_verify. cbn [tg_scheme tg_pt]. destruct s; cbn [eff_data dst_of] in Hh.
    - unfold basic_aggregate_verify. destruct (dup_scan [] data); [apply returns_val | apply G; exact Hh].
    - apply G. exact Hh.
    - apply G. exact Hh.
  Qed.

  (* ---------- signcryption ---------- *)
  (* the only oracle side condition the code itself asserts: a keystream of >= 32 bytes is not all zero *)
  Definition keystream_ok (dbg : bool) : Prop :=
    dbg = true -> forall s n, (32 <= n)%nat -> all_zero (xof O s n) = false.

  Lemma sc_compute_v_returns dbg (p : pt K Gpk) r :
    keystream_ok dbg -> exists v, sc_compute_v O dbg p r = Val v /\ length v = length r.
  Proof.
    intros Hk. rewrite (sc_compute_v_val K O C OL dbg p r).
    - eexists. split; [reflexivity|]. rewrite xor_zip_length. unfold ks. rewrite (ol_xof_len K O _ _ OL). lia.
    - intros E. destruct (Nat.lt_ge_cases (length r) 32) as [H|H]; [left; exact H|right].
      apply (Hk E). exact H.
  Qed.

  Theorem sc_decrypt_returns dbg v (ua : pt K Gpk) valid :
    keystream_ok dbg -> returns (sc_decrypt O dbg v ua valid).
  Proof.
    intros Hk. unfold sc_decrypt. destruct (sc_compute_v_returns dbg ua v Hk) as (p & E & _). rewrite E.
    cbn [bind]. pose proof (unframe_total false p) as T. pose proof (unframe_never_loops false p) as L.
    destruct (unframe false p) as [uf| |]; try contradiction. cbn [bind]. destruct uf; apply returns_val.
  Qed.

  Lemma sc_valid_returns dbg (u : pt K Gpk) v (w : pt K Gsig) dst :
    (dbg = true -> Hw K O u v dst <> f0 K) -> exists b, sc_valid O dbg u v w dst = Val b.
  Proof. intros H. rewrite (sc_valid_val K laws O dbg u v w dst H). eexists; reflexivity. Qed.

  Theorem scct_decrypt_returns dbg (ct : sc_ct) sk :
    keystream_ok dbg ->
    (dbg = true -> Hw K O (sc_u ct) (sc_v ct) (dst_of C (sc_scheme ct)) <> f0 K) ->
    returns (scct_decrypt O C dbg ct sk).
  Proof.
    intros Hk Hh. unfold scct_decrypt, sc_unseal.
    destruct (sc_valid_returns dbg _ _ (sc_w ct) _ Hh) as [b E]. rewrite E. cbn [bind].
    apply sc_decrypt_returns. exact Hk.
  Qed.

  Theorem scct_is_valid_returns dbg (ct : sc_ct) :
    (dbg = true -> Hw K O (sc_u ct) (sc_v ct) (dst_of C (sc_scheme ct)) <> f0 K) ->
    returns (scct_is_valid O C dbg ct).
  Proof.
    intros Hh. unfold scct_is_valid.
    destruct (sc_valid_returns dbg _ _ (sc_w ct) _ Hh) as [b E].
    destruct (sc_scheme ct); cbn [dst_of] in E; rewrite E; apply returns_val.
  Qed.

  Theorem scdk_decrypt_returns dbg dk (ct : sc_ct) :
    keystream_ok dbg ->
    (dbg = true -> Hw K O (sc_u ct) (sc_v ct) (dst_of C (sc_scheme ct)) <> f0 K) ->
    returns (scdk_decrypt O C dbg dk ct).
  Proof.
    intros Hk Hh. unfold scdk_decrypt.
    destruct (sc_valid_returns dbg _ _ (sc_w ct) _ Hh) as [b E]. rewrite E. cbn [bind].
    apply sc_decrypt_returns. exact Hk.
  Qed.

  Theorem scct_decrypt_with_shares_returns dbg (ct : sc_ct) shares :
    keystream_ok dbg ->
    (dbg = true -> Hw K O (sc_u ct) (sc_v ct) (dst_of C (sc_scheme ct)) <> f0 K) ->
    returns (scct_decrypt_with_shares O C dbg ct shares).
  Proof.
    intros Hk Hh. unfold scct_decrypt_with_shares, sc_unseal_with_shares.
    destruct (Nat.ltb _ 2); [apply returns_val|].
    destruct (combine_public_key_shares_returns shares) as [A B].
    destruct (core_combine_public_key_shares O shares) as [[ua|e]| |]; cbn [bind]; try contradiction;
      [|apply returns_val].
    destruct (sc_valid_returns dbg _ _ (sc_w ct) _ Hh) as [b E]. rewrite E. cbn [bind].
    apply sc_decrypt_returns. exact Hk.
  Qed.

  Theorem sds_verify_returns dbg sh pks (ct : sc_ct) :
    (dbg = true -> Hw K O (sc_u ct) (sc_v ct) (dst_of C (sc_scheme ct)) <> f0 K) ->
    returns (sds_verify O C dbg sh pks ct).
  Proof.
    intros Hh. unfold sds_verify. destruct (share_as_pk O sh); [|apply returns_val].
    destruct (share_as_pk O pks); [|apply returns_val].
    destruct (sc_verify_share_exact K laws O dbg a a0 (sc_u ct) (sc_v ct) (sc_w ct) _ Hh) as (b & E & _).
    rewrite E. cbn [bind]. destruct b; apply returns_val.
  Qed.

  (* ---------- time lock ---------- *)
  Theorem tlct_decrypt_returns dbg (ct : tl_ct) (sig : tagged) :
    length (tl_v ct) = 32%nat -> keystream_ok dbg ->
    (forall a m, r_tl K O a m <> f0 K) ->
    returns (tlct_decrypt O dbg ct sig).
  Proof.
    intros Lv Hk Hr. unfold tlct_decrypt.
    destruct (if scheme_eqb (tg_scheme sig) (tl_scheme ct) then (tg_pt sig, true) else (pid, false)) as [s valid].
    unfold tl_unseal. rewrite (tl_compute_v_val K O C OL dbg _ _ Lv). cbn [bind].
    rewrite (tl_compute_w_val K O C OL).
    2:{ intros E. destruct (Nat.lt_ge_cases (length (tl_w ct)) 32) as [H|H]; [left; exact H|right].
        apply (Hk E). exact H. }
    cbn [bind].
    match goal with |- returns (bind (unframe true ?p) _) =>
      pose proof (unframe_total true p) as T; pose proof (unframe_never_loops true p) as L;
      destruct (unframe true p) as [uf| |]; try contradiction end.
    cbn [bind]. destruct uf as [m| |]; try apply returns_val.
    - rewrite (hash_to_scalar_val K laws O _ _ (Hr _ m)). cbn [bind].
      rewrite dassert_ok by (intros _; apply (nz_b K laws); apply Hr). apply returns_val.
    - rewrite (hash_to_scalar_val K laws O _ _ (Hr _ [])). cbn [bind].
      rewrite dassert_ok by (intros _; apply (nz_b K laws); apply Hr). apply returns_val.
  Qed.

  (* ---------- curve-tagged key wrapper: empty and short slices are errors, not index panics ---------- *)
  Theorem sk_enum_try_from_total b : exists r, sk_enum_try_from O b = r.
  Proof. eexists; reflexivity. Qed.
  Theorem sk_enum_from_be_bytes_empty : sk_enum_from_be_bytes O [] = None.
  Proof. reflexivity. Qed.
End Total.
