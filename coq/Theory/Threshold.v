(* Threshold shares at the code level (C08): split, combine, public-key shares,
   partial signatures, error cases. *)
From Coq Require Import Ring Field.
From BV Require Import Alg.Field Alg.Dlog Sem.Base Model.Oracles Model.Helpers Model.Varint
     Model.Core Model.Protocols Model.Api Theory.Poly Theory.Shamir Theory.CoreFacts Theory.Schemes.

(* one-byte identifiers embed injectively and away from zero (true in any field of
   characteristic > 255; proved for the executable modulus by computation elsewhere) *)
Definition EmbedLaw (K : FieldOps) (O : Oracles K) : Prop :=
  (forall i, (0 < i < 256)%N -> of_u64 O i <> f0 K) /\
  (forall i j, (0 < i < 256)%N -> (0 < j < 256)%N -> of_u64 O i = of_u64 O j -> i = j).

Section Threshold.
  Context (K : FieldOps) (laws : FieldLaws K) (O : Oracles K) (C : Impl).
  Context (OL : OracleLaws K O (SIG_LEN C) (PK_LEN C)) (EL : EmbedLaw K O).
  Add Field Kf8 : (K_field K laws).
  Notation F := (car K).
  Notation "0" := (f0 K).
  Infix "+" := (fadd K).
  Infix "*" := (fmul K).
  Notation peval := (peval K).

  Definition good_id (i : N) : Prop := (0 < i < 256)%N.

  (* ---------- combine ---------- *)
  Lemma combine_collect_ok (dec : bytes -> option F) (val : share -> F) (shares : list share) :
    (forall s, In s shares -> good_id (sid s) /\ dec (sval s) = Some (val s)) ->
    combine_collect O dec shares = Ok (map (fun s => (of_u64 O (sid s), val s)) shares).
  Proof.
    induction shares as [|s r IH]; intros H; cbn [combine_collect map]; [reflexivity|].
    destruct (H s (or_introl eq_refl)) as [[Hlo Hhi] Hd].
    replace (sid s =? 0)%N with false by (symmetry; apply N.eqb_neq; lia).
    rewrite Hd, IH; [reflexivity|]. intros s' Hin. apply H. right. exact Hin.
  Qed.

  Lemma NoDup_embed (shares : list share) :
    (forall s, In s shares -> good_id (sid s)) ->
    NoDup (map sid shares) -> NoDup (map (fun s => of_u64 O (sid s)) shares).
  Proof.
    induction shares as [|s r IH]; intros Hg Hnd; cbn [map]; [constructor|].
    cbn [map] in Hnd. inversion Hnd as [|? ? Hnin Hnd']; subst. constructor.
    - intros Hin. apply in_map_iff in Hin. destruct Hin as (s' & E & Hin').
      apply Hnin. apply in_map_iff. exists s'. split; [|exact Hin'].
      symmetry. apply (proj2 EL); [apply Hg; left; reflexivity | apply Hg; right; exact Hin' | congruence].
    - apply IH; [intros s' Hin; apply Hg; right; exact Hin | exact Hnd'].
  Qed.

  (* any >= t (and >= 2) distinct shares of the polynomial p recombine to p(0) *)
  Theorem combine_shares_correct (dec : bytes -> option F) (p : list F) (shares : list share) :
    (2 <= length shares)%nat -> (length p <= length shares)%nat ->
    NoDup (map sid shares) ->
    (forall s, In s shares ->
               good_id (sid s) /\ dec (sval s) = Some (peval p (of_u64 O (sid s)))) ->
    combine_shares_with O dec shares = Val (Ok (peval p 0)).
  Proof.
    intros H2 Hlen Hnd Hs. unfold combine_shares_with.
    replace (Nat.ltb (length shares) 2) with false by (symmetry; apply Nat.ltb_ge; lia).
    rewrite (combine_collect_ok dec (fun s => peval p (of_u64 O (sid s))) shares Hs).
    rewrite map_map. cbn [fst].
    assert (Hg : forall s, In s shares -> good_id (sid s)) by (intros s Hin; apply Hs; exact Hin).
    rewrite (has_dup_x_false K laws _ (NoDup_embed shares Hg Hnd)).
    rewrite (interpolate_correct K laws p).
    - reflexivity.
    - rewrite map_map. cbn [fst]. apply NoDup_embed; assumption.
    - intros x y Hin. apply in_map_iff in Hin. destruct Hin as (s & E & _). inversion E; subst. reflexivity.
    - rewrite map_length. exact Hlen.
  Qed.

  (* error cases of combination (exact error kind) *)
  Theorem combine_too_few dec (shares : list share) :
    (length shares < 2)%nat -> combine_shares_with O dec shares = Val (Err VsssError).
  Proof.
    intros H. unfold combine_shares_with.
    replace (Nat.ltb (length shares) 2) with true by (symmetry; apply Nat.ltb_lt; lia). reflexivity.
  Qed.

  Lemma combine_collect_zero_id dec (shares : list share) :
    In 0%N (map sid shares) -> combine_collect O dec shares = Err VsssError.
  Proof.
    induction shares as [|s r IH]; intros H; [destruct H|]. cbn [combine_collect].
    destruct (sid s =? 0)%N eqn:E; [reflexivity|].
    destruct (dec (sval s)); [|reflexivity].
    rewrite IH; [reflexivity|]. destruct H as [H|H]; [apply N.eqb_neq in E; congruence | exact H].
  Qed.

  Lemma combine_collect_bad_payload dec (shares : list share) :
    (exists s, In s shares /\ dec (sval s) = None) -> combine_collect O dec shares = Err VsssError.
  Proof.
    induction shares as [|s r IH]; intros (s' & Hin & Hd); [destruct Hin|]. cbn [combine_collect].
    destruct (sid s =? 0)%N; [reflexivity|].
    destruct Hin as [->|Hin].
    - rewrite Hd. reflexivity.
    - destruct (dec (sval s)); [|reflexivity]. rewrite IH; [reflexivity | exists s'; split; assumption].
  Qed.

  Lemma combine_collect_err_kind dec shares e : combine_collect O dec shares = Err e -> e = VsssError.
  Proof.
    revert e. induction shares as [|s r IH]; intros e; cbn [combine_collect]; [discriminate|].
    destruct (sid s =? 0)%N; [congruence|]. destruct (dec (sval s)); [|congruence].
    destruct (combine_collect O dec r) eqn:E; [discriminate|]. intros H; inversion H; subst. apply IH. reflexivity.
  Qed.

  Theorem combine_zero_identifier dec (shares : list share) :
    In 0%N (map sid shares) -> combine_shares_with O dec shares = Val (Err VsssError).
  Proof.
    intros H. unfold combine_shares_with. destruct (Nat.ltb _ 2); [reflexivity|].
    rewrite (combine_collect_zero_id dec shares H). reflexivity.
  Qed.

  Theorem combine_invalid_payload dec (shares : list share) :
    (exists s, In s shares /\ dec (sval s) = None) ->
    combine_shares_with O dec shares = Val (Err VsssError).
  Proof.
    intros H. unfold combine_shares_with. destruct (Nat.ltb _ 2); [reflexivity|].
    rewrite (combine_collect_bad_payload dec shares H). reflexivity.
  Qed.

  Lemma combine_collect_fst dec shares vals :
    combine_collect O dec shares = Ok vals -> map fst vals = map (fun s => of_u64 O (sid s)) shares.
  Proof.
    revert vals. induction shares as [|s r IH]; intros vals; cbn [combine_collect].
    - intros H; inversion H; reflexivity.
    - destruct (sid s =? 0)%N; [discriminate|]. destruct (dec (sval s)); [|discriminate].
      destruct (combine_collect O dec r) eqn:E; [|discriminate]. intros H; inversion H; subst.
      cbn [map fst]. f_equal. apply IH. reflexivity.
  Qed.

  Theorem combine_duplicate_identifier dec (shares : list share) :
    ~ NoDup (map sid shares) -> combine_shares_with O dec shares = Val (Err VsssError).
  Proof.
    intros H. unfold combine_shares_with. destruct (Nat.ltb _ 2); [reflexivity|].
    destruct (combine_collect O dec shares) as [vals|e] eqn:E.
    - rewrite (combine_collect_fst dec shares vals E).
      rewrite (has_dup_x_true K laws); [reflexivity|].
      intros Hnd. apply H. clear - Hnd. induction shares as [|s r IH]; cbn [map] in *; [constructor|].
      inversion Hnd as [|? ? Hnin Hnd']; subst. constructor; [|apply IH; exact Hnd'].
      intros Hin. apply Hnin. apply in_map_iff in Hin. destruct Hin as (s' & E & Hin).
      apply in_map_iff. exists s'. split; [congruence | exact Hin].
    - rewrite (combine_collect_err_kind dec shares e E). reflexivity.
  Qed.

  (* ---------- split ---------- *)
  Definition share_of (coeffs : list F) (i : N) : share :=
    mkshare i (repr O (peval coeffs (of_u64 O i))).

  Lemma poly_eval_peval coeffs x : poly_eval (K:=K) coeffs x = peval coeffs x.
  Proof. reflexivity. Qed.

  Lemma create_shares_spec coeffs x n :
    (x + N.of_nat n <= 256)%N ->
    create_shares O coeffs x n = Ok (map (share_of coeffs) (seqN x n)).
  Proof.
    revert x. induction n as [|n IH]; intros x Hx; cbn [create_shares seqN map]; [reflexivity|].
    replace (256 <=? x)%N with false by (symmetry; apply N.leb_gt; lia).
    rewrite IH by lia. reflexivity.
  Qed.

  Lemma create_shares_overflow coeffs x n :
    (x <= 256)%N -> (256 < x + N.of_nat n)%N -> create_shares O coeffs x n = Err VsssError.
  Proof.
    revert x. induction n as [|n IH]; intros x Hle Hx; cbn [create_shares]; [lia|].
    destruct (256 <=? x)%N eqn:E; [reflexivity|]. apply N.leb_gt in E.
    rewrite IH by lia. reflexivity.
  Qed.

  Lemma next_nonzero_first seed i f :
    rng_scalar O seed i <> 0 -> next_nonzero O (S f) seed i = Val (rng_scalar O seed i, S i).
  Proof.
    intros H. cbn [next_nonzero]. rewrite (proj2 (is_zero_s_false K laws _) H). reflexivity.
  Qed.

  Lemma fill_coeffs_nonzero n seed i :
    (forall k, (k < n)%nat -> rng_scalar O seed (i + k) <> 0) ->
    fill_coeffs O n seed i = Val (map (fun k => rng_scalar O seed (i + k)) (seq 0 n)).
  Proof.
    revert i. induction n as [|n IH]; intros i H; cbn [fill_coeffs seq map]; [reflexivity|].
    unfold RETRY_FUEL. rewrite next_nonzero_first by (replace i with (i + 0)%nat at 1 by lia; apply H; lia).
    cbn [bind]. rewrite IH.
    - cbn [bind]. f_equal. f_equal; [f_equal; lia|].
      rewrite <- seq_shift, map_map. apply map_ext. intros k. f_equal. lia.
    - intros k Hk. replace (S i + k)%nat with (i + S k)%nat by lia. apply H. lia.
  Qed.

  (* parameters outside 2 <= t <= n <= 255 are errors; inside, the shares are f(1..n) *)
  Theorem sk_split_bad_params sk t n seed :
    (n < t)%nat \/ (t < 2)%nat -> sk_split O sk t n seed = Val (Err VsssError).
  Proof.
    intros H. unfold sk_split, vsss_split_secret. destruct (Nat.ltb 255 n); [reflexivity|].
    destruct (Nat.ltb n t) eqn:E1; [reflexivity|].
    destruct (Nat.ltb t 2) eqn:E2; [reflexivity|].
    apply Nat.ltb_ge in E1, E2. lia.
  Qed.

  Definition split_coeffs (sk : F) (t : nat) (seed : bytes) : list F :=
    sk :: map (fun k => rng_scalar O seed k) (seq 0 (t - 1)).

  Theorem sk_split_ok sk t n seed :
    (2 <= t)%nat -> (t <= n)%nat ->
    (forall k, (k < t - 1)%nat -> rng_scalar O seed k <> 0) ->
    sk_split O sk t n seed =
    Val (if (n <=? 255)%nat then Ok (map (share_of (split_coeffs sk t seed)) (seqN 1 n))
         else Err VsssError).
  Proof.
    intros H2 Htn Hnz. unfold sk_split, vsss_split_secret.
    destruct (Nat.ltb 255 n) eqn:E255.
    { apply Nat.ltb_lt in E255. replace (n <=? 255)%nat with false by (symmetry; apply Nat.leb_gt; lia).
      reflexivity. }
    apply Nat.ltb_ge in E255.
    replace (Nat.ltb n t) with false by (symmetry; apply Nat.ltb_ge; lia).
    replace (Nat.ltb t 2) with false by (symmetry; apply Nat.ltb_ge; lia).
    rewrite (fill_coeffs_nonzero (t - 1) seed 0) by (intros k Hk; apply Hnz; exact Hk).
    cbn [bind]. f_equal. fold (split_coeffs sk t seed).
    destruct (n <=? 255)%nat eqn:E.
    - apply Nat.leb_le in E. apply create_shares_spec. lia.
    - apply Nat.leb_gt in E. apply create_shares_overflow; lia.
  Qed.

  Lemma length_split_coeffs sk t seed : (1 <= t)%nat -> length (split_coeffs sk t seed) = t.
  Proof. intros H. unfold split_coeffs. cbn [length]. rewrite map_length, seq_length. lia. Qed.

  Lemma in_seqN x n i : In i (seqN x n) <-> (x <= i < x + N.of_nat n)%N.
  Proof.
    revert x. induction n as [|n IH]; intros x; cbn [seqN In]; [lia|].
    rewrite IH. lia.
  Qed.

  (* ---------- any t-or-more distinct shares of a split recombine to the key ---------- *)
  Definition shares_of (coeffs : list F) (S : list share) : Prop :=
    forall s, In s S -> good_id (sid s) /\ s = share_of coeffs (sid s).

  Theorem combine_recovers_secret coeffs sk rest (S : list share) :
    coeffs = sk :: rest -> shares_of coeffs S -> NoDup (map sid S) ->
    (2 <= length S)%nat -> (length coeffs <= length S)%nat ->
    sk_combine O S = Val (Ok sk).
  Proof.
    intros Ec HS Hnd H2 Hlen. unfold sk_combine, combine_secret_shares.
    rewrite (combine_shares_correct (unrepr O) coeffs S H2 Hlen Hnd).
    - subst coeffs. rewrite (peval_at_0 K laws). reflexivity.
    - intros s Hin. destruct (HS s Hin) as [Hg E]. split; [exact Hg|].
      rewrite E at 1. cbn [sval share_of]. apply (ol_unrepr_repr K O _ _ OL).
  Qed.

  (* ---------- linearity: shares of c * f recombine to c * f(0) ---------- *)
  Theorem combine_scaled (dec : bytes -> option F) (c : F) coeffs sk rest (S : list share) :
    coeffs = sk :: rest -> NoDup (map sid S) ->
    (2 <= length S)%nat -> (length coeffs <= length S)%nat ->
    (forall s, In s S -> good_id (sid s)
                         /\ dec (sval s) = Some (c * peval coeffs (of_u64 O (sid s)))) ->
    combine_shares_with O dec S = Val (Ok (c * sk)).
  Proof.
    intros Ec Hnd H2 Hlen HS.
    rewrite (combine_shares_correct dec (pscale K c coeffs) S H2).
    - rewrite (peval_pscale K laws). subst coeffs. rewrite (peval_at_0 K laws). reflexivity.
    - rewrite (length_pscale K). exact Hlen.
    - exact Hnd.
    - intros s Hin. destruct (HS s Hin) as [Hg E]. split; [exact Hg|].
      rewrite E, (peval_pscale K laws). reflexivity.
  Qed.

  (* public-key shares *)
  Lemma share_with_exact cap id v : length v = cap -> share_with cap id v = Ok (mkshare id v).
  Proof.
    intros H. unfold share_with. replace (Nat.ltb (length v) cap) with false by (symmetry; apply Nat.ltb_ge; lia).
    rewrite <- H, firstn_all. reflexivity.
  Qed.

  Definition pk_share_of (coeffs : list F) (g : F) (i : N) : share :=
    mkshare i (enc_pk O (g * peval coeffs (of_u64 O i))).

  Lemma public_key_share_with_generator_spec coeffs i (g : pt K Gpk) :
    public_key_share_with_generator O C (share_of coeffs i) g = Ok (pk_share_of coeffs (dl g) i).
  Proof.
    unfold public_key_share_with_generator, share_as_field_element. cbn [sval share_of sid].
    rewrite (ol_unrepr_repr K O _ _ OL). cbn [enc pmul dl].
    apply share_with_exact. apply (ol_enc_pk_len K O _ _ OL).
  Qed.

  Theorem public_key_shares_recombine coeffs sk rest (S : list share) (g : pt K Gpk) :
    coeffs = sk :: rest -> NoDup (map sid S) ->
    (2 <= length S)%nat -> (length coeffs <= length S)%nat ->
    (forall s, In s S -> good_id (sid s) /\ s = pk_share_of coeffs (dl g) (sid s)) ->
    core_combine_public_key_shares O S = Val (Ok (pmul g sk)).
  Proof.
    intros Ec Hnd H2 Hlen HS. unfold core_combine_public_key_shares.
    rewrite (combine_scaled (dec_pk O) (dl g) coeffs sk rest S Ec Hnd H2 Hlen).
    - reflexivity.
    - intros s Hin. destruct (HS s Hin) as [Hg E]. split; [exact Hg|].
      rewrite E at 1. cbn [sval pk_share_of]. apply (ol_dec_enc_pk K O _ _ OL).
  Qed.

  (* partial signatures *)
  Definition sig_share_of (coeffs : list F) (h : F) (i : N) : share :=
    mkshare i (enc_sig O (h * peval coeffs (of_u64 O i))).

  Lemma core_partial_sign_spec coeffs i msg dst :
    peval coeffs (of_u64 O i) <> 0 ->
    core_partial_sign O C (share_of coeffs i) msg dst = Ok (sig_share_of coeffs (eta O msg dst) i).
  Proof.
    intros Hnz. unfold core_partial_sign, share_as_field_element. cbn [sval share_of sid].
    rewrite (ol_unrepr_repr K O _ _ OL), (core_sign_nonzero K laws O _ _ _ Hnz). cbn [enc dl].
    apply share_with_exact. apply (ol_enc_sig_len K O _ _ OL).
  Qed.

  Theorem signature_shares_recombine coeffs sk rest (S : list share) (h : F) :
    coeffs = sk :: rest -> NoDup (map sid S) ->
    (2 <= length S)%nat -> (length coeffs <= length S)%nat ->
    (forall s, In s S -> good_id (sid s) /\ s = sig_share_of coeffs h (sid s)) ->
    core_combine_signature_shares O S = Val (Ok (mkpt (h * sk))).
  Proof.
    intros Ec Hnd H2 Hlen HS. unfold core_combine_signature_shares.
    rewrite (combine_scaled (dec_sig O) h coeffs sk rest S Ec Hnd H2 Hlen).
    - reflexivity.
    - intros s Hin. destruct (HS s Hin) as [Hg E]. split; [exact Hg|].
      rewrite E at 1. cbn [sval sig_share_of]. apply (ol_dec_enc_sig K O _ _ OL).
  Qed.

  (* Signature::from_shares of >= t partial signatures is byte-for-byte what the whole key signs *)
  Theorem sig_from_shares_equals_whole_key_signature s msg coeffs sk rest (S : list share) :
    s <> Aug -> sk <> 0 ->
    coeffs = sk :: rest -> NoDup (map sid S) ->
    (2 <= length S)%nat -> (length coeffs <= length S)%nat ->
    (forall sh, In sh S -> good_id (sid sh)
                           /\ sh = sig_share_of coeffs (eta O msg (dst_of C s)) (sid sh)) ->
    bind (sig_from_shares O (map (mktshare s) S)) (fun r => Val r)
    = Val (sk_sign O C sk s msg).
  Proof.
    intros Hna Hsk Ec Hnd H2 Hlen HS. unfold sig_from_shares.
    assert (Hall : match map (mktshare s) S with
                   | [] => true
                   | s0 :: r => forallb (fun x => share_same_scheme x s0) r end = true).
    { destruct S as [|a S']; [reflexivity|]. cbn [map]. apply forallb_forall.
      intros x Hx. apply in_map_iff in Hx. destruct Hx as (y & <- & _).
      unfold share_same_scheme. cbn. destruct s; reflexivity. }
    rewrite Hall. cbn [negb]. rewrite map_map. cbn [ts_share]. rewrite map_id.
    rewrite (signature_shares_recombine coeffs sk rest S _ Ec Hnd H2 Hlen HS).
    cbn [bind_res bind]. destruct S as [|a S']; [cbn in H2; lia|]. cbn [map ts_scheme].
    rewrite (sign_succeeds K laws O C sk s msg Hsk). unfold ret_ok. do 3 f_equal.
    unfold Hs, amsg. destruct s; [reflexivity | contradiction | reflexivity].
  Qed.

  Theorem sig_from_shares_mixed_scheme (a b : tagged_share) rest :
    ts_scheme b <> ts_scheme a ->
    sig_from_shares O (a :: b :: rest) = Val (Err InvalidSignatureScheme).
  Proof.
    intros H. unfold sig_from_shares. cbn [forallb]. unfold share_same_scheme at 1.
    destruct (scheme_eqb (ts_scheme b) (ts_scheme a)) eqn:E.
    - exfalso. apply H. destruct (ts_scheme b), (ts_scheme a); cbn in E; congruence.
    - reflexivity.
  Qed.

  (* each partial signature verifies under its own public-key share ... *)
  Theorem partial_signature_verifies s msg coeffs i :
    s <> Aug -> peval coeffs (of_u64 O i) <> 0 -> eta O msg (dst_of C s) <> 0 ->
    pks_verify O C (pk_share_of coeffs (f1 K) i)
               (mktshare s (sig_share_of coeffs (eta O msg (dst_of C s)) i)) msg = Ok tt.
  Proof.
    intros Hna Hnz HH. unfold pks_verify, share_as_pk, share_as_sig.
    cbn [sval pk_share_of sig_share_of ts_share ts_scheme].
    rewrite (ol_dec_enc_pk K O _ _ OL), (ol_dec_enc_sig K O _ _ OL).
    assert (E : forall pk sg, match s with
                              | Basic => basic_verify O C pk sg msg
                              | Aug => aug_verify O C pk sg msg
                              | Pop => pop_verify_sig O C pk sg msg end
                              = core_verify O pk sg msg (dst_of C s)).
    { intros pk sg. destruct s; [reflexivity | contradiction | reflexivity]. }
    rewrite E. apply (core_verify_exact K laws O). cbn [dl]. repeat split.
    - apply (fmul_neq_0 K laws); assumption.
    - rewrite (fmul_1_l K laws). exact Hnz.
    - ring.
  Qed.

  (* ... and under another participant's share only if the two share values coincide *)
  Theorem partial_signature_other_share s msg coeffs i j :
    s <> Aug -> eta O msg (dst_of C s) <> 0 ->
    pks_verify O C (pk_share_of coeffs (f1 K) j)
               (mktshare s (sig_share_of coeffs (eta O msg (dst_of C s)) i)) msg = Ok tt ->
    peval coeffs (of_u64 O j) = peval coeffs (of_u64 O i).
  Proof.
    intros Hna HH. unfold pks_verify, share_as_pk, share_as_sig.
    cbn [sval pk_share_of sig_share_of ts_share ts_scheme].
    rewrite (ol_dec_enc_pk K O _ _ OL), (ol_dec_enc_sig K O _ _ OL).
    assert (E : forall pk sg, match s with
                              | Basic => basic_verify O C pk sg msg
                              | Aug => aug_verify O C pk sg msg
                              | Pop => pop_verify_sig O C pk sg msg end
                              = core_verify O pk sg msg (dst_of C s)).
    { intros pk sg. destruct s; [reflexivity | contradiction | reflexivity]. }
    rewrite E. intros H. apply (core_verify_exact K laws O) in H. cbn [dl] in H.
    destruct H as (_ & _ & H).
    apply (fmul_cancel_l K laws (eta O msg (dst_of C s))); [exact HH|].
    rewrite H. ring.
  Qed.

  Theorem sks_sign_aug_refused sks msg : sks_sign O C sks Aug msg = Err SigningError.
  Proof. reflexivity. Qed.
End Threshold.
