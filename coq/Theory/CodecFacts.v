(* Wire formats (C15, C16): every well-formed value round-trips through its layout, in front
   of arbitrary trailing bytes; every proper prefix of an encoding is rejected; fixed-size
   layouts have a length that depends only on the layout. *)
From BV Require Import Alg.Field Alg.Dlog Sem.Base Model.Oracles Model.Helpers Model.Varint
     Model.Core Model.Protocols Model.Api Model.Codec Theory.VarintFacts Theory.PoK.

Local Open Scope N_scope.
Ltac Zify.zify_post_hook ::= Z.div_mod_to_equations.

(* ---------- serde_bare uint ---------- *)
Lemma bare_dec_enc f : forall i x acc s rest,
  (0 < f)%nat -> (i + f = 10)%nat -> s = 7 * N.of_nat i ->
  x * 2 ^ s < 2 ^ 64 -> acc < 2 ^ s ->
  bare_uint_dec_from f i (varint_enc_fuel f x ++ rest) acc s = Some (acc + x * 2 ^ s, rest).
Proof.
  induction f as [|f IH]; intros i x acc s rest Hf Hi Hs Hx Hacc; [lia|].
  cbn [varint_enc_fuel]. destruct (x <? 128) eqn:E.
  - apply N.ltb_lt in E. cbn [app bare_uint_dec_from].
    assert (G : (Nat.eqb i 9 && (1 <? x))%bool = false).
    { destruct (Nat.eqb i 9) eqn:E9; [|reflexivity]. apply Nat.eqb_eq in E9. subst i.
      cbn [andb]. apply N.ltb_ge. replace s with 63 in Hx by lia.
      change (2 ^ 64) with (2 * 2 ^ 63) in Hx. nia. }
    rewrite G, (proj2 (N.ltb_lt _ _) E).
    rewrite N.shiftl_mul_pow2, N.mod_small by lia. rewrite lor_low_high by exact Hacc. reflexivity.
  - apply N.ltb_ge in E. cbn [app bare_uint_dec_from]. rewrite byte_cont.
    assert (Hi9 : (i < 9)%nat).
    { destruct (Nat.eq_dec i 9) as [->|]; [|lia]. replace s with 63 in Hx by lia.
      change (2 ^ 64) with (2 * 2 ^ 63) in Hx. nia. }
    replace (Nat.eqb i 9) with false by (symmetry; apply Nat.eqb_neq; lia). cbn [andb].
    replace (x mod 128 + 128 <? 128) with false by (symmetry; apply N.ltb_ge; apply N.le_add_l).
    rewrite land127.
    replace ((x mod 128 + 128) mod 128) with (x mod 128).
    2:{ rewrite N.add_mod by discriminate. rewrite N.mod_same by discriminate.
        rewrite N.add_0_r, !N.mod_mod by discriminate. reflexivity. }
    assert (Hdm : x = 128 * (x / 128) + x mod 128) by (apply N.div_mod; discriminate).
    assert (Hlt : x mod 128 < 128) by (apply N.mod_lt; discriminate).
    assert (P7 : 2 ^ (s + 7) = 2 ^ s * 128) by (rewrite N.pow_add_r; reflexivity).
    rewrite N.shiftl_mul_pow2, N.mod_small by nia.
    rewrite lor_low_high by exact Hacc.
    rewrite N.shiftr_div_pow2. change (2 ^ 7) with 128.
    rewrite IH; try lia.
    all: try (rewrite P7; nia).
    f_equal. f_equal. rewrite P7. rewrite Hdm at 3. nia.
Qed.

Theorem bare_uint_round_trip x rest :
  x < 2 ^ 64 -> bare_uint_dec (bare_uint_enc x ++ rest) = Some (x, rest).
Proof.
  intros H. unfold bare_uint_dec, bare_uint_enc.
  rewrite bare_dec_enc; try lia.
  all: try (rewrite N.pow_0_r; lia).
  f_equal. f_equal. lia.
Qed.

(* a proper prefix of an encoded uint does not decode *)
Lemma bare_dec_prefix_none f : forall i x acc s k,
  (k < length (varint_enc_fuel f x))%nat ->
  bare_uint_dec_from f i (firstn k (varint_enc_fuel f x)) acc s = None.
Proof.
  induction f as [|f IH]; intros i x acc s k Hk; [reflexivity|].
  cbn [varint_enc_fuel] in *. destruct (x <? 128) eqn:E.
  - cbn [length] in Hk. replace k with 0%nat by lia. reflexivity.
  - destruct k as [|k]; [reflexivity|]. cbn [firstn bare_uint_dec_from]. cbn [length] in Hk.
    rewrite byte_cont.
    destruct (Nat.eqb i 9 && (1 <? x mod 128 + 128))%bool; [reflexivity|].
    replace (x mod 128 + 128 <? 128) with false by (symmetry; apply N.ltb_ge; apply N.le_add_l).
    apply IH. lia.
Qed.

Lemma bare_uint_prefix_none x k :
  (k < length (bare_uint_enc x))%nat -> bare_uint_dec (firstn k (bare_uint_enc x)) = None.
Proof. apply bare_dec_prefix_none. Qed.

Lemma bare_uint_enc_small x : x < 128 -> bare_uint_enc x = [x].
Proof. intros H. unfold bare_uint_enc. cbn [varint_enc_fuel]. rewrite (proj2 (N.ltb_lt _ _) H). reflexivity. Qed.

Lemma bare_uint_enc_nonempty x : (1 <= length (bare_uint_enc x))%nat.
Proof. unfold bare_uint_enc. cbn [varint_enc_fuel]. destruct (x <? 128); cbn [length]; lia. Qed.

(* ---------- u64 little endian ---------- *)
Lemma le_val_le_bytes n : forall x, x < 256 ^ N.of_nat n -> le_val (le_bytes n x) = x.
Proof.
  induction n as [|n IH]; intros x H.
  - cbn in H. cbn. lia.
  - cbn [le_bytes le_val].
    assert (P : 256 ^ N.of_nat (S n) = 256 * 256 ^ N.of_nat n).
    { rewrite Nat2N.inj_succ, N.pow_succ_r'. reflexivity. }
    rewrite P in H. rewrite IH.
    + pose proof (N.div_mod x 256). lia.
    + apply N.div_lt_upper_bound; [discriminate | exact H].
Qed.

Lemma le_bytes_length n x : length (le_bytes n x) = n.
Proof. revert x. induction n as [|n IH]; intros x; cbn; [reflexivity|]. rewrite IH. reflexivity. Qed.

(* ---------- list helpers ---------- *)
Lemma firstn_app_ge {A} (a b : list A) k :
  (length a <= k)%nat -> firstn k (a ++ b) = a ++ firstn (k - length a) b.
Proof. intros H. rewrite firstn_app. rewrite firstn_all2 by exact H. reflexivity. Qed.

Lemma firstn_app_lt {A} (a b : list A) k :
  (k <= length a)%nat -> firstn k (a ++ b) = firstn k a.
Proof.
  intros H. rewrite firstn_app. replace (k - length a)%nat with 0%nat by lia.
  cbn. apply app_nil_r.
Qed.

(* ---------- the generic theorems ---------- *)
Theorem shape_round_trip (s : shape) : forall v rest,
  wf_val s v -> dec_shape s (enc_shape s v ++ rest) = Some (v, rest).
Proof.
  induction s as [| |n| |sa IHa sb IHb|n sa IHa]; intros v rest Hw; destruct v as [x|b|a c|tag a];
    cbn [wf_val] in Hw; try contradiction; cbn [enc_shape dec_shape].
  - reflexivity.
  - rewrite app_length, le_bytes_length.
    replace (Nat.ltb (8 + length rest) 8) with false by (symmetry; apply Nat.ltb_ge; lia).
    pose proof (le_bytes_length 8 x) as L.
    rewrite <- L at 1. rewrite firstn_app_exact. rewrite <- L at 2. rewrite skipn_app_exact.
    rewrite le_val_le_bytes by (cbn; exact Hw). reflexivity.
  - destruct Hw as [L _]. rewrite app_length.
    replace (Nat.ltb (length b + length rest) n) with false by (symmetry; apply Nat.ltb_ge; lia).
    subst n. rewrite firstn_app_exact, skipn_app_exact. reflexivity.
  - destruct Hw as [L _]. rewrite <- app_assoc, bare_uint_round_trip by exact L.
    rewrite app_length.
    replace (N.of_nat (length b + length rest) <? N.of_nat (length b)) with false
      by (symmetry; apply N.ltb_ge; lia).
    rewrite Nat2N.id, firstn_app_exact, skipn_app_exact. reflexivity.
  - destruct Hw as [Wa Wc]. rewrite <- app_assoc, IHa by exact Wa. rewrite IHb by exact Wc. reflexivity.
  - destruct Hw as (Ht & Hn & Wa). rewrite <- app_assoc, bare_uint_round_trip by lia.
    replace (n <=? tag) with false by (symmetry; apply N.leb_gt; exact Ht).
    rewrite IHa by exact Wa. reflexivity.
Qed.

Corollary shape_round_trip_exact (s : shape) v :
  wf_val s v -> dec_shape s (enc_shape s v) = Some (v, []).
Proof. intros H. rewrite <- (app_nil_r (enc_shape s v)) at 1. apply shape_round_trip. exact H. Qed.

Theorem shape_truncation_rejected (s : shape) : forall v k,
  wf_val s v -> (k < length (enc_shape s v))%nat ->
  dec_shape s (firstn k (enc_shape s v)) = None.
Proof.
  induction s as [| |n| |sa IHa sb IHb|n sa IHa]; intros v k Hw Hk; destruct v as [x|b|a c|tag a];
    cbn [wf_val] in Hw; try contradiction; cbn [enc_shape dec_shape] in *.
  - cbn [length] in Hk. replace k with 0%nat by lia. reflexivity.
  - rewrite le_bytes_length in Hk. rewrite firstn_length, le_bytes_length.
    replace (Nat.ltb (Nat.min k 8) 8) with true by (symmetry; apply Nat.ltb_lt; lia). reflexivity.
  - destruct Hw as [L _]. rewrite firstn_length.
    replace (Nat.ltb (Nat.min k (length b)) n) with true by (symmetry; apply Nat.ltb_lt; lia). reflexivity.
  - destruct Hw as [L _]. rewrite app_length in Hk.
    destruct (Nat.lt_ge_cases k (length (bare_uint_enc (N.of_nat (length b))))) as [Hc|Hc].
    + rewrite firstn_app_lt by lia. rewrite bare_uint_prefix_none by exact Hc. reflexivity.
    + rewrite firstn_app_ge by exact Hc. rewrite bare_uint_round_trip by exact L.
      rewrite firstn_length.
      replace (N.of_nat (Nat.min _ (length b)) <? N.of_nat (length b)) with true; [reflexivity|].
      symmetry. apply N.ltb_lt. lia.
  - destruct Hw as [Wa Wc]. rewrite app_length in Hk.
    destruct (Nat.lt_ge_cases k (length (enc_shape sa a))) as [Hc|Hc].
    + rewrite firstn_app_lt by lia. rewrite IHa by assumption. reflexivity.
    + rewrite firstn_app_ge by exact Hc. rewrite shape_round_trip by exact Wa.
      rewrite IHb; [reflexivity | exact Wc | lia].
  - destruct Hw as (Ht & Hn & Wa). rewrite app_length in Hk.
    destruct (Nat.lt_ge_cases k (length (bare_uint_enc tag))) as [Hc|Hc].
    + rewrite firstn_app_lt by lia. rewrite bare_uint_prefix_none by exact Hc. reflexivity.
    + rewrite firstn_app_ge by exact Hc. rewrite bare_uint_round_trip by lia.
      replace (n <=? tag) with false by (symmetry; apply N.leb_gt; exact Ht).
      rewrite IHa; [reflexivity | exact Wa | lia].
Qed.

(* fixed-size layouts: the length depends only on the layout *)
Fixpoint fixed_size (s : shape) : option nat :=
  match s with
  | SU8 => Some 1%nat
  | SU64 => Some 8%nat
  | SFixed n => Some n
  | SBytes => None
  | SPair a b => match fixed_size a, fixed_size b with Some x, Some y => Some (x + y)%nat | _, _ => None end
  | SEnum _ a => match fixed_size a with Some x => Some (S x) | None => None end
  end.

Theorem fixed_size_length (s : shape) : forall v n,
  wf_val s v -> fixed_size s = Some n -> length (enc_shape s v) = n.
Proof.
  induction s as [| |m| |sa IHa sb IHb|m sa IHa]; intros v n Hw Hf; destruct v as [x|b|a c|tag a];
    cbn [wf_val] in Hw; try contradiction; cbn [enc_shape fixed_size] in *.
  - inversion Hf; reflexivity.
  - inversion Hf. apply le_bytes_length.
  - inversion Hf; subst. apply Hw.
  - discriminate.
  - destruct (fixed_size sa) as [x|]; [|discriminate]. destruct (fixed_size sb) as [y|]; [|discriminate].
    inversion Hf; subst. destruct Hw as [Wa Wc]. rewrite app_length, (IHa a x Wa eq_refl), (IHb c y Wc eq_refl). reflexivity.
  - destruct (fixed_size sa) as [x|]; [|discriminate]. inversion Hf; subst.
    destruct Hw as (Ht & Hn & Wa). rewrite bare_uint_enc_small by lia. cbn [app length].
    rewrite (IHa a x Wa eq_refl). reflexivity.
Qed.
