(* C02 — verification accepts exactly the one valid signature and nothing else. *)
From BV Require Import Alg.Field Alg.Dlog Sem.Base Model.Oracles Model.Helpers Model.Core
     Model.Api Theory.CoreFacts Theory.Schemes.

(* the decision is exactly the IETF CoreVerify equation plus the two identity guards *)
Theorem C02_verify_exact :
  forall (K : FieldOps) (laws : FieldLaws K) (O : Oracles K) (C : Impl)
         (sg : tagged) (pk : pt K Gpk) (msg : bytes),
    sig_verify O C sg pk msg = Ok tt
    <-> dl (tg_pt sg) <> f0 K /\ dl pk <> f0 K
        /\ dl (tg_pt sg) = fmul K (dl pk) (Hs K O C (tg_scheme sg) pk msg).
Proof. exact sig_verify_exact. Qed.

(* exactly one group element verifies for (pk, msg, scheme) ... *)
Theorem C02_unique :
  forall (K : FieldOps) (laws : FieldLaws K) (O : Oracles K) (C : Impl)
         (s : scheme) (p1 p2 : pt K Gsig) (pk : pt K Gpk) (msg : bytes),
    sig_verify O C (mktagged s p1) pk msg = Ok tt ->
    sig_verify O C (mktagged s p2) pk msg = Ok tt -> p1 = p2.
Proof. exact sig_verify_unique. Qed.

(* ... namely the one honest signing produces *)
Theorem C02_accepted_is_honest :
  forall (K : FieldOps) (laws : FieldLaws K) (O : Oracles K) (C : Impl)
         (sk : car K) (s : scheme) (p : pt K Gsig) (msg : bytes),
    sig_verify O C (mktagged s p) (public_key sk) msg = Ok tt ->
    sk_sign O C sk s msg = Ok (mktagged s p).
Proof. exact sig_verify_only_honest. Qed.

(* any other group element (sig + kG, -sig, k*sig, another key's signature, ...) is rejected *)
Theorem C02_other_point_rejected :
  forall (K : FieldOps) (laws : FieldLaws K) (O : Oracles K) (C : Impl)
         (sk : car K) (s : scheme) (sg : tagged) (p' : pt K Gsig) (msg : bytes),
    sk_sign O C sk s msg = Ok sg -> p' <> tg_pt sg ->
    sig_verify O C (mktagged s p') (public_key sk) msg <> Ok tt.
Proof. exact sig_verify_rejects_other_point. Qed.

(* another public key accepts only if it is the same key (Basic / PoP; absolute) *)
Theorem C02_other_key_rejected :
  forall (K : FieldOps) (laws : FieldLaws K) (O : Oracles K) (C : Impl)
         (sk : car K) (s : scheme) (sg : tagged) (pk' : pt K Gpk) (msg : bytes),
    s <> Aug -> Hs K O C s (public_key sk) msg <> f0 K ->
    sk_sign O C sk s msg = Ok sg ->
    sig_verify O C sg pk' msg = Ok tt -> pk' = public_key sk.
Proof. exact sig_verify_other_key. Qed.

(* another message / length / scheme label: accepted only at a collision of the hash oracle
   between two (input, tag) pairs ... *)
Theorem C02_other_input_needs_collision :
  forall (K : FieldOps) (laws : FieldLaws K) (O : Oracles K) (C : Impl)
         (sk : car K) (s : scheme) (msg : bytes) (sg : tagged) (s' : scheme) (msg' : bytes),
    sk_sign O C sk s msg = Ok sg ->
    sig_verify O C (mktagged s' (tg_pt sg)) (public_key sk) msg' = Ok tt ->
    Hs K O C s' (public_key sk) msg' = Hs K O C s (public_key sk) msg.
Proof. exact sig_verify_other_input. Qed.

(* ... which are syntactically different pairs *)
Theorem C02_inputs_differ_message :
  forall (K : FieldOps) (O : Oracles K) (s : scheme) (pk : pt K Gpk) (msg msg' : bytes),
    msg <> msg' -> amsg K O s pk msg <> amsg K O s pk msg'.
Proof. exact message_inputs_differ. Qed.

Theorem C02_inputs_differ_scheme :
  forall (K : FieldOps) (O : Oracles K) (C : Impl) (s s' : scheme) (pk pk' : pt K Gpk) (msg msg' : bytes),
    is_std_impl C -> s <> s' ->
    (amsg K O s pk msg, dst_of C s) <> (amsg K O s' pk' msg', dst_of C s').
Proof. exact scheme_inputs_differ. Qed.

(* algebraically related tuples that ARE valid stay valid *)
Theorem C02_additive_tuples_valid :
  forall (K : FieldOps) (laws : FieldLaws K) (O : Oracles K)
         (pk1 pk2 : pt K Gpk) (s1 s2 : pt K Gsig) (msg dst : bytes),
    core_verify O pk1 s1 msg dst = Ok tt -> core_verify O pk2 s2 msg dst = Ok tt ->
    dl (padd pk1 pk2) <> f0 K -> dl (padd s1 s2) <> f0 K ->
    core_verify O (padd pk1 pk2) (padd s1 s2) msg dst = Ok tt.
Proof. exact core_verify_additive. Qed.

Print Assumptions C02_verify_exact.
Print Assumptions C02_unique.
Print Assumptions C02_accepted_is_honest.
Print Assumptions C02_other_point_rejected.
Print Assumptions C02_other_key_rejected.
Print Assumptions C02_other_input_needs_collision.
Print Assumptions C02_inputs_differ_message.
Print Assumptions C02_inputs_differ_scheme.
Print Assumptions C02_additive_tuples_valid.
