(* C07 — multi-signatures verify against exactly the set of signers. *)
From BV Require Import Alg.Field Alg.Dlog Sem.Base Model.Oracles Model.Helpers Model.Core
     Model.Api Theory.CoreFacts Theory.Schemes Theory.Aggregate.

Theorem C07_accumulation_is_sum :
  forall (K : FieldOps) (laws : FieldLaws K) (s0 s1 : tagged) (rest : list tagged),
    all_scheme K (tg_scheme s0) (s1 :: rest) -> tg_scheme s0 <> Aug ->
    exists p, multi_from_sigs (s0 :: s1 :: rest) = Ok (mktagged (tg_scheme s0) p)
              /\ dl p = dl (psum (map (@tg_pt K) (s0 :: s1 :: rest))).
Proof. exact multi_from_sigs_ok. Qed.

Theorem C07_fewer_than_two_refused :
  forall (K : FieldOps) (l : list (@tagged K)),
    (length l < 2)%nat -> multi_from_sigs l = Err InvalidSignature.
Proof. exact multi_from_sigs_too_few. Qed.

Theorem C07_aug_and_mixed_refused :
  forall (K : FieldOps) (s0 s1 : tagged) (rest : list tagged),
    ~ all_scheme K (tg_scheme s0) (s1 :: rest) \/ tg_scheme s0 = Aug ->
    multi_from_sigs (s0 :: s1 :: rest) = Err InvalidSignatureScheme.
Proof. exact multi_from_sigs_refused. Qed.

Theorem C07_accumulated_key_is_sum :
  forall (K : FieldOps) (laws : FieldLaws K) (keys : list (pt K Gpk)),
    dl (multi_pk_from_public_keys keys) = dl (psum keys).
Proof. exact multi_pk_is_sum. Qed.

Theorem C07_complete :
  forall (K : FieldOps) (laws : FieldLaws K) (O : Oracles K) (C : Impl)
         (s : scheme) (sks : list (car K)) (msg : bytes),
    s <> Aug -> sum_f K sks <> f0 K -> eta O msg (dst_of C s) <> f0 K ->
    multi_verify O C (mktagged s (mkpt (fmul K (eta O msg (dst_of C s)) (sum_f K sks))))
                 (multi_pk_from_public_keys (map public_key sks)) msg = Ok tt.
Proof. exact multi_verify_complete. Qed.

Theorem C07_zero_sum_key_rejected :
  forall (K : FieldOps) (laws : FieldLaws K) (O : Oracles K) (C : Impl)
         (m : tagged) (sks : list (car K)) (msg : bytes),
    sum_f K sks = f0 K ->
    multi_verify O C m (multi_pk_from_public_keys (map public_key sks)) msg <> Ok tt.
Proof. exact multi_verify_zero_sum. Qed.

Theorem C07_exactly_the_signer_set :
  forall (K : FieldOps) (laws : FieldLaws K) (O : Oracles K) (C : Impl)
         (s : scheme) (p : pt K Gsig) (mpk mpk' : pt K Gpk) (msg : bytes),
    s <> Aug -> eta O msg (dst_of C s) <> f0 K ->
    multi_verify O C (mktagged s p) mpk msg = Ok tt ->
    multi_verify O C (mktagged s p) mpk' msg = Ok tt -> mpk' = mpk.
Proof. exact multi_verify_other_key_set. Qed.

Theorem C07_signer_missing_or_added :
  forall (K : FieldOps) (laws : FieldLaws K) (sks1 sks2 : list (car K)) (sk : car K),
    @multi_pk_from_public_keys K (map public_key (sks1 ++ sk :: sks2))
    = multi_pk_from_public_keys (map public_key (sks1 ++ sks2)) -> sk = f0 K.
Proof. exact multi_signer_missing. Qed.

Theorem C07_signer_replaced :
  forall (K : FieldOps) (laws : FieldLaws K) (sks1 sks2 : list (car K)) (sk sk' : car K),
    @multi_pk_from_public_keys K (map public_key (sks1 ++ sk :: sks2))
    = multi_pk_from_public_keys (map public_key (sks1 ++ sk' :: sks2)) -> sk = sk'.
Proof. exact multi_signer_replaced. Qed.

Theorem C07_other_message_needs_collision :
  forall (K : FieldOps) (laws : FieldLaws K) (O : Oracles K) (C : Impl)
         (s : scheme) (p : pt K Gsig) (mpk : pt K Gpk) (msg msg' : bytes),
    s <> Aug -> dl mpk <> f0 K ->
    multi_verify O C (mktagged s p) mpk msg = Ok tt ->
    multi_verify O C (mktagged s p) mpk msg' = Ok tt ->
    eta O msg' (dst_of C s) = eta O msg (dst_of C s).
Proof. exact multi_verify_other_message. Qed.

Print Assumptions C07_accumulation_is_sum.
Print Assumptions C07_fewer_than_two_refused.
Print Assumptions C07_aug_and_mixed_refused.
Print Assumptions C07_accumulated_key_is_sum.
Print Assumptions C07_complete.
Print Assumptions C07_zero_sum_key_rejected.
Print Assumptions C07_exactly_the_signer_set.
Print Assumptions C07_signer_missing_or_added.
Print Assumptions C07_signer_replaced.
Print Assumptions C07_other_message_needs_collision.
