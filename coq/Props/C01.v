(* C01 — every honestly produced signature verifies (all schemes, both group assignments).
   Property theorems only: statements, closed by lemmas proved elsewhere. *)
From BV Require Import Alg.Field Alg.Dlog Sem.Base Model.Oracles Model.Helpers Model.Core
     Model.Api Theory.CoreFacts Theory.Schemes.

(* signing succeeds for every non-zero key, every message (any length), every scheme, and is
   the explicit function  H(amsg) * sk  of its inputs (hence deterministic) *)
Theorem C01_sign_succeeds :
  forall (K : FieldOps) (laws : FieldLaws K) (O : Oracles K) (C : Impl)
         (sk : car K) (s : scheme) (msg : bytes),
    sk <> f0 K ->
    sk_sign O C sk s msg
    = Ok (mktagged s (mkpt (fmul K (Hs K O C s (public_key sk) msg) sk))).
Proof. exact sign_succeeds. Qed.

(* the honest signature verifies under the matching public key and the same message *)
Theorem C01_sign_verify_complete :
  forall (K : FieldOps) (laws : FieldLaws K) (O : Oracles K) (C : Impl)
         (sk : car K) (s : scheme) (msg : bytes) (sg : tagged),
    Hs K O C s (public_key sk) msg <> f0 K ->
    sk_sign O C sk s msg = Ok sg ->
    tg_scheme sg = s /\ sig_verify O C sg (public_key sk) msg = Ok tt.
Proof. exact sign_verify_complete. Qed.

(* the only excluded case, stated: if hash-to-curve returned the identity the honest signature
   would be the identity and is rejected by the guard (not silently accepted) *)
Theorem C01_degenerate_hash_rejected :
  forall (K : FieldOps) (laws : FieldLaws K) (O : Oracles K) (C : Impl)
         (sk : car K) (s : scheme) (msg : bytes) (sg : tagged),
    Hs K O C s (public_key sk) msg = f0 K ->
    sk_sign O C sk s msg = Ok sg ->
    sig_verify O C sg (public_key sk) msg = Err InvalidInputs.
Proof. exact sign_verify_degenerate. Qed.

Theorem C01_zero_key_refused :
  forall (K : FieldOps) (laws : FieldLaws K) (O : Oracles K) (C : Impl) (s : scheme) (msg : bytes),
    sk_sign O C (f0 K) s msg = Err SigningError.
Proof. exact sign_zero_key. Qed.

Print Assumptions C01_sign_succeeds.
Print Assumptions C01_sign_verify_complete.
Print Assumptions C01_degenerate_hash_rejected.
Print Assumptions C01_zero_key_refused.
