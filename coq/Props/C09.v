(* C09 — a proof of possession verifies only for the key that made it. *)
From BV Require Import Alg.Field Alg.Dlog Sem.Base Model.Oracles Model.Helpers Model.Core
     Model.Api Theory.CoreFacts Theory.Schemes.

Theorem C09_complete :
  forall (K : FieldOps) (laws : FieldLaws K) (O : Oracles K) (C : Impl) (sk : car K),
    sk <> f0 K -> Hpop K O C (public_key sk) <> f0 K ->
    exists p, sk_proof_of_possession O C sk = Ok p
              /\ pop_wrapper_verify O C p (public_key sk) = Ok tt.
Proof. exact pop_complete. Qed.

Theorem C09_exact :
  forall (K : FieldOps) (laws : FieldLaws K) (O : Oracles K) (C : Impl)
         (p : pt K Gsig) (pk : pt K Gpk),
    pop_wrapper_verify O C p pk = Ok tt
    <-> dl p <> f0 K /\ dl pk <> f0 K /\ dl p = fmul K (dl pk) (Hpop K O C pk).
Proof. exact pop_verify_exact. Qed.

Theorem C09_any_change_rejected :
  forall (K : FieldOps) (laws : FieldLaws K) (O : Oracles K) (C : Impl)
         (sk : car K) (p p' : pt K Gsig),
    sk_proof_of_possession O C sk = Ok p -> p' <> p ->
    pop_wrapper_verify O C p' (public_key sk) <> Ok tt.
Proof. exact pop_any_change_rejected. Qed.

(* another key: acceptance is a linear relation between the hash oracle at two different inputs *)
Theorem C09_other_key_needs_relation :
  forall (K : FieldOps) (laws : FieldLaws K) (O : Oracles K) (C : Impl)
         (sk : car K) (p : pt K Gsig) (pk' : pt K Gpk),
    sk_proof_of_possession O C sk = Ok p ->
    pop_wrapper_verify O C p pk' = Ok tt ->
    fmul K (dl pk') (Hpop K O C pk') = fmul K sk (Hpop K O C (public_key sk)).
Proof. exact pop_other_key. Qed.

Theorem C09_other_key_inputs_differ :
  forall (K : FieldOps) (O : Oracles K) (sl pl : nat) (L : OracleLaws K O sl pl) (pk pk' : pt K Gpk),
    pk <> pk' -> enc O pk <> enc O pk'.
Proof. exact pop_inputs_differ. Qed.

Theorem C09_zero_key_refused :
  forall (K : FieldOps) (laws : FieldLaws K) (O : Oracles K) (C : Impl),
    sk_proof_of_possession O C (f0 K) = Err SigningError.
Proof. exact pop_prove_zero. Qed.

Print Assumptions C09_complete.
Print Assumptions C09_exact.
Print Assumptions C09_any_change_rejected.
Print Assumptions C09_other_key_needs_relation.
Print Assumptions C09_other_key_inputs_differ.
Print Assumptions C09_zero_key_refused.
