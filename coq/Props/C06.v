(* C06 — aggregate verification: complete, exact, distinct messages enforced in Basic. *)
From Coq Require Import Permutation.
From BV Require Import Alg.Field Alg.Dlog Sem.Base Model.Oracles Model.Helpers Model.Core
     Model.Api Theory.CoreFacts Theory.Schemes Theory.Aggregate.

(* >= 2 signatures of one scheme aggregate to the plain group sum *)
Theorem C06_aggregate_is_sum :
  forall (K : FieldOps) (laws : FieldLaws K) (s0 s1 : tagged) (rest : list tagged),
    all_scheme K (tg_scheme s0) (s1 :: rest) ->
    exists p, aggregate_from_signatures (s0 :: s1 :: rest) = Ok (mktagged (tg_scheme s0) p)
              /\ dl p = dl (psum (map (@tg_pt K) (s0 :: s1 :: rest))).
Proof. exact aggregate_from_signatures_ok. Qed.

Theorem C06_fewer_than_two_refused :
  forall (K : FieldOps) (l : list (@tagged K)),
    (length l < 2)%nat -> aggregate_from_signatures l = Err InvalidSignature.
Proof. exact aggregate_from_signatures_too_few. Qed.

Theorem C06_mixed_schemes_refused :
  forall (K : FieldOps) (s0 s1 : tagged) (rest : list tagged),
    ~ all_scheme K (tg_scheme s0) (s1 :: rest) ->
    aggregate_from_signatures (s0 :: s1 :: rest) = Err InvalidSignatureScheme.
Proof. exact aggregate_from_signatures_mixed. Qed.

(* exact acceptance condition, for every list length *)
Theorem C06_verify_exact :
  forall (K : FieldOps) (laws : FieldLaws K) (O : Oracles K) (C : Impl) (dbg : bool)
         (a : tagged) (data : list (pt K Gpk * bytes)),
    (dbg = true -> hashes_nonzero K O (eff_data K O (tg_scheme a) data) (dst_of C (tg_scheme a))) ->
    (aggregate_verify O C dbg a data = Val (Ok tt)
     <-> (tg_scheme a = Basic -> NoDup (map snd data))
         /\ dl (tg_pt a) <> f0 K /\ no_id_pk K data
         /\ dl (tg_pt a) = agg_rhs K O (eff_data K O (tg_scheme a) data) (dst_of C (tg_scheme a))).
Proof. exact aggregate_verify_exact. Qed.

(* honest lists verify (Basic needs distinct messages) *)
Theorem C06_complete :
  forall (K : FieldOps) (laws : FieldLaws K) (O : Oracles K) (C : Impl) (dbg : bool)
         (s : scheme) (sks : list (car K * bytes)),
    (dbg = true -> hashes_nonzero K O (eff_data K O s (honest_data K sks)) (dst_of C s)) ->
    (s = Basic -> NoDup (map snd sks)) ->
    Forall (fun km => fst km <> f0 K) sks ->
    honest_rhs K O C s sks <> f0 K ->
    aggregate_verify O C dbg (honest_aggregate K O C s sks) (honest_data K sks) = Val (Ok tt).
Proof. exact aggregate_verify_complete. Qed.

(* in any order *)
Theorem C06_permutation_invariant :
  forall (K : FieldOps) (laws : FieldLaws K) (O : Oracles K) (C : Impl) (dbg : bool)
         (a : tagged) (data data' : list (pt K Gpk * bytes)),
    (dbg = true -> hashes_nonzero K O (eff_data K O (tg_scheme a) data) (dst_of C (tg_scheme a))) ->
    Permutation data data' ->
    aggregate_verify O C dbg a data = Val (Ok tt) ->
    aggregate_verify O C dbg a data' = Val (Ok tt).
Proof. exact aggregate_verify_permutation. Qed.

(* Basic: a repeated message is rejected whatever the aggregate *)
Theorem C06_basic_rejects_repeated_message :
  forall (K : FieldOps) (O : Oracles K) (C : Impl) (dbg : bool) (p : pt K Gsig)
         (data : list (pt K Gpk * bytes)),
    ~ NoDup (map snd data) ->
    aggregate_verify O C dbg (mktagged Basic p) data = Val (Err InvalidInputs).
Proof. exact basic_rejects_repeated_message. Qed.

(* perturbations: two accepted lists have equal right-hand sides, hence ... *)
Theorem C06_two_accepted_lists :
  forall (K : FieldOps) (laws : FieldLaws K) (O : Oracles K) (C : Impl) (dbg : bool)
         (a : tagged) (data data' : list (pt K Gpk * bytes)),
    (dbg = true -> hashes_nonzero K O (eff_data K O (tg_scheme a) data) (dst_of C (tg_scheme a))) ->
    (dbg = true -> hashes_nonzero K O (eff_data K O (tg_scheme a) data') (dst_of C (tg_scheme a))) ->
    aggregate_verify O C dbg a data = Val (Ok tt) ->
    aggregate_verify O C dbg a data' = Val (Ok tt) ->
    agg_rhs K O (eff_data K O (tg_scheme a) data) (dst_of C (tg_scheme a))
    = agg_rhs K O (eff_data K O (tg_scheme a) data') (dst_of C (tg_scheme a)).
Proof. exact aggregate_verify_two_lists. Qed.

(* ... a dropped / added pair must contribute nothing (its key or hash point is the identity) *)
Theorem C06_dropped_pair :
  forall (K : FieldOps) (laws : FieldLaws K) (O : Oracles K)
         (l1 : list (pt K Gpk * bytes)) (x : pt K Gpk * bytes) (l2 : list (pt K Gpk * bytes)) (dst : bytes),
    agg_rhs K O (l1 ++ x :: l2) dst = agg_rhs K O (l1 ++ l2) dst ->
    fmul K (dl (fst x)) (eta O (snd x) dst) = f0 K.
Proof. exact agg_rhs_drop. Qed.

(* ... an altered message or key gives a relation between two hash values *)
Theorem C06_altered_pair :
  forall (K : FieldOps) (laws : FieldLaws K) (O : Oracles K)
         (l1 : list (pt K Gpk * bytes)) (x y : pt K Gpk * bytes) (l2 : list (pt K Gpk * bytes)) (dst : bytes),
    agg_rhs K O (l1 ++ x :: l2) dst = agg_rhs K O (l1 ++ y :: l2) dst ->
    fmul K (dl (fst x)) (eta O (snd x) dst) = fmul K (dl (fst y)) (eta O (snd y) dst).
Proof. exact agg_rhs_replace. Qed.

(* ... two messages swapped between different signers *)
Theorem C06_swapped_messages :
  forall (K : FieldOps) (laws : FieldLaws K) (O : Oracles K)
         (l1 : list (pt K Gpk * bytes)) (pk1 pk2 : pt K Gpk) (m1 m2 : bytes)
         (l2 l3 : list (pt K Gpk * bytes)) (dst : bytes),
    agg_rhs K O (l1 ++ (pk1, m1) :: l2 ++ (pk2, m2) :: l3) dst
    = agg_rhs K O (l1 ++ (pk1, m2) :: l2 ++ (pk2, m1) :: l3) dst ->
    fmul K (fsub K (dl pk1) (dl pk2)) (fsub K (eta O m1 dst) (eta O m2 dst)) = f0 K.
Proof. exact agg_rhs_swap. Qed.

Print Assumptions C06_aggregate_is_sum.
Print Assumptions C06_fewer_than_two_refused.
Print Assumptions C06_mixed_schemes_refused.
Print Assumptions C06_verify_exact.
Print Assumptions C06_complete.
Print Assumptions C06_permutation_invariant.
Print Assumptions C06_basic_rejects_repeated_message.
Print Assumptions C06_two_accepted_lists.
Print Assumptions C06_dropped_pair.
Print Assumptions C06_altered_pair.
Print Assumptions C06_swapped_messages.
