(* C08 — threshold shares recombine to exactly the whole-key results. *)
From BV Require Import Alg.Field Alg.Dlog Sem.Base Model.Oracles Model.Helpers Model.Core
     Model.Api Theory.Poly Theory.Shamir Theory.CoreFacts Theory.Schemes Theory.Threshold.

(* the mathematical core: Lagrange interpolation at 0, as vsss-rs computes it, returns p(0)
   for ANY set of distinct points at least as large as the number of coefficients *)
Theorem C08_interpolation_correct :
  forall (K : FieldOps) (laws : FieldLaws K) (p : list (car K)) (sh : list (car K * car K)),
    NoDup (map fst sh) ->
    (forall x y, In (x, y) sh -> y = peval K p x) ->
    (length p <= length sh)%nat ->
    interpolate sh = Val (peval K p (f0 K)).
Proof. exact interpolate_correct. Qed.

(* split: parameters outside 2 <= t <= n are errors ... *)
Theorem C08_split_bad_params :
  forall (K : FieldOps) (O : Oracles K) (sk : car K) (t n : nat) (seed : bytes),
    (n < t)%nat \/ (t < 2)%nat -> sk_split O sk t n seed = Val (Err VsssError).
Proof. exact sk_split_bad_params. Qed.

(* ... inside, the shares are f(1), ..., f(n) for n <= 255 and an error for n > 255 *)
Theorem C08_split_shares :
  forall (K : FieldOps) (laws : FieldLaws K) (O : Oracles K) (sk : car K) (t n : nat) (seed : bytes),
    (2 <= t)%nat -> (t <= n)%nat ->
    (forall k, (k < t - 1)%nat -> rng_scalar O seed k <> f0 K) ->
    sk_split O sk t n seed =
    Val (if (n <=? 255)%nat then Ok (map (share_of K O (split_coeffs K O sk t seed)) (seqN 1 n))
         else Err VsssError).
Proof. exact sk_split_ok. Qed.

(* any t or more distinct shares recombine to the key *)
Theorem C08_combine_recovers_key :
  forall (K : FieldOps) (laws : FieldLaws K) (O : Oracles K) (C : Impl)
         (OL : OracleLaws K O (SIG_LEN C) (PK_LEN C)) (EL : EmbedLaw K O)
         (coeffs : list (car K)) (sk : car K) (rest : list (car K)) (S : list share),
    coeffs = sk :: rest -> shares_of K O coeffs S -> NoDup (map sid S) ->
    (2 <= length S)%nat -> (length coeffs <= length S)%nat ->
    sk_combine O S = Val (Ok sk).
Proof. exact combine_recovers_secret. Qed.

(* their public-key shares recombine to the public key (generator g = P), and decryption
   shares (generator g = U or c1) to sk * g *)
Theorem C08_public_key_shares_recombine :
  forall (K : FieldOps) (laws : FieldLaws K) (O : Oracles K) (C : Impl)
         (OL : OracleLaws K O (SIG_LEN C) (PK_LEN C)) (EL : EmbedLaw K O)
         (coeffs : list (car K)) (sk : car K) (rest : list (car K)) (S : list share) (g : pt K Gpk),
    coeffs = sk :: rest -> NoDup (map sid S) ->
    (2 <= length S)%nat -> (length coeffs <= length S)%nat ->
    (forall s, In s S -> good_id (sid s) /\ s = pk_share_of K O coeffs (dl g) (sid s)) ->
    core_combine_public_key_shares O S = Val (Ok (pmul g sk)).
Proof. exact public_key_shares_recombine. Qed.

(* partial signatures recombine to exactly what the whole key signs (same scheme variant) *)
Theorem C08_signature_shares_recombine :
  forall (K : FieldOps) (laws : FieldLaws K) (O : Oracles K) (C : Impl)
         (OL : OracleLaws K O (SIG_LEN C) (PK_LEN C)) (EL : EmbedLaw K O)
         (s : scheme) (msg : bytes) (coeffs : list (car K)) (sk : car K) (rest : list (car K))
         (S : list share),
    s <> Aug -> sk <> f0 K ->
    coeffs = sk :: rest -> NoDup (map sid S) ->
    (2 <= length S)%nat -> (length coeffs <= length S)%nat ->
    (forall sh, In sh S -> good_id (sid sh)
                           /\ sh = sig_share_of K O coeffs (eta O msg (dst_of C s)) (sid sh)) ->
    bind (sig_from_shares O (map (mktshare s) S)) (fun r => Val r)
    = Val (sk_sign O C sk s msg).
Proof. exact sig_from_shares_equals_whole_key_signature. Qed.

Theorem C08_partial_signature_verifies_under_own_share :
  forall (K : FieldOps) (laws : FieldLaws K) (O : Oracles K) (C : Impl)
         (OL : OracleLaws K O (SIG_LEN C) (PK_LEN C))
         (s : scheme) (msg : bytes) (coeffs : list (car K)) (i : N),
    s <> Aug -> peval K coeffs (of_u64 O i) <> f0 K -> eta O msg (dst_of C s) <> f0 K ->
    pks_verify O C (pk_share_of K O coeffs (f1 K) i)
               (mktshare s (sig_share_of K O coeffs (eta O msg (dst_of C s)) i)) msg = Ok tt.
Proof. exact partial_signature_verifies. Qed.

Theorem C08_partial_signature_under_other_share :
  forall (K : FieldOps) (laws : FieldLaws K) (O : Oracles K) (C : Impl)
         (OL : OracleLaws K O (SIG_LEN C) (PK_LEN C))
         (s : scheme) (msg : bytes) (coeffs : list (car K)) (i j : N),
    s <> Aug -> eta O msg (dst_of C s) <> f0 K ->
    pks_verify O C (pk_share_of K O coeffs (f1 K) j)
               (mktshare s (sig_share_of K O coeffs (eta O msg (dst_of C s)) i)) msg = Ok tt ->
    peval K coeffs (of_u64 O j) = peval K coeffs (of_u64 O i).
Proof. exact partial_signature_other_share. Qed.

(* fewer than t shares never determine the key: no function of them computes it *)
Theorem C08_below_threshold_undetermined :
  forall (K : FieldOps) (laws : FieldLaws K) (t : nat) (xs : list (car K)),
    (length xs < t)%nat -> (forall x, In x xs -> x <> f0 K) ->
    ~ exists g : list (car K * car K) -> car K,
        forall p, length p = t -> g (map (fun x => (x, peval K p x)) xs) = peval K p (f0 K).
Proof. exact no_combiner_below_threshold. Qed.

(* error cases, each with its exact error kind *)
Theorem C08_too_few_shares :
  forall (K : FieldOps) (O : Oracles K) (dec : bytes -> option (car K)) (shares : list share),
    (length shares < 2)%nat -> combine_shares_with O dec shares = Val (Err VsssError).
Proof. exact combine_too_few. Qed.

Theorem C08_zero_identifier :
  forall (K : FieldOps) (O : Oracles K) (dec : bytes -> option (car K)) (shares : list share),
    In 0%N (map sid shares) -> combine_shares_with O dec shares = Val (Err VsssError).
Proof. exact combine_zero_identifier. Qed.

Theorem C08_duplicate_identifier :
  forall (K : FieldOps) (laws : FieldLaws K) (O : Oracles K) (dec : bytes -> option (car K))
         (shares : list share),
    ~ NoDup (map sid shares) -> combine_shares_with O dec shares = Val (Err VsssError).
Proof. exact combine_duplicate_identifier. Qed.

Theorem C08_invalid_payload :
  forall (K : FieldOps) (O : Oracles K) (dec : bytes -> option (car K)) (shares : list share),
    (exists s, In s shares /\ dec (sval s) = None) ->
    combine_shares_with O dec shares = Val (Err VsssError).
Proof. exact combine_invalid_payload. Qed.

Theorem C08_mixed_scheme_shares :
  forall (K : FieldOps) (O : Oracles K) (a b : tagged_share) (rest : list tagged_share),
    ts_scheme b <> ts_scheme a ->
    sig_from_shares O (a :: b :: rest) = Val (Err InvalidSignatureScheme).
Proof. exact sig_from_shares_mixed_scheme. Qed.

Print Assumptions C08_interpolation_correct.
Print Assumptions C08_split_bad_params.
Print Assumptions C08_split_shares.
Print Assumptions C08_combine_recovers_key.
Print Assumptions C08_public_key_shares_recombine.
Print Assumptions C08_signature_shares_recombine.
Print Assumptions C08_partial_signature_verifies_under_own_share.
Print Assumptions C08_partial_signature_under_other_share.
Print Assumptions C08_below_threshold_undetermined.
Print Assumptions C08_too_few_shares.
Print Assumptions C08_zero_identifier.
Print Assumptions C08_duplicate_identifier.
Print Assumptions C08_invalid_payload.
Print Assumptions C08_mixed_scheme_shares.
