(* C05 — schemes and purposes are domain-separated. *)
From BV Require Import Alg.Field Alg.Dlog Sem.Base Model.Oracles Model.Helpers Model.Core
     Model.Protocols Model.Api Theory.CoreFacts Theory.Schemes.

(* every tag and salt constant of the library is distinct from every other *)
Theorem C05_tags_pairwise_distinct : NoDup all_tags.
Proof. exact tags_pairwise_distinct. Qed.

(* the signature / PoP tags and the KeyGen salt are the IETF strings *)
Theorem C05_ietf_tags :
  DST_NUL G1Impl = bs "BLS_SIG_BLS12381G1_XMD:SHA-256_SSWU_RO_NUL_" /\
  DST_AUG G1Impl = bs "BLS_SIG_BLS12381G1_XMD:SHA-256_SSWU_RO_AUG_" /\
  DST_POPSIG G1Impl = bs "BLS_SIG_BLS12381G1_XMD:SHA-256_SSWU_RO_POP_" /\
  DST_POP G1Impl = bs "BLS_POP_BLS12381G1_XMD:SHA-256_SSWU_RO_POP_" /\
  DST_NUL G2Impl = bs "BLS_SIG_BLS12381G2_XMD:SHA-256_SSWU_RO_NUL_" /\
  DST_AUG G2Impl = bs "BLS_SIG_BLS12381G2_XMD:SHA-256_SSWU_RO_AUG_" /\
  DST_POPSIG G2Impl = bs "BLS_SIG_BLS12381G2_XMD:SHA-256_SSWU_RO_POP_" /\
  DST_POP G2Impl = bs "BLS_POP_BLS12381G2_XMD:SHA-256_SSWU_RO_POP_" /\
  KEYGEN_SALT = bs "BLS-SIG-KEYGEN-SALT-" /\ HKDF_INFO = [0; 48]%N.
Proof. exact ietf_tags. Qed.

(* the tag used for a scheme determines the scheme *)
Theorem C05_tag_selects_scheme :
  forall (C : Impl) (s s' : scheme), is_std_impl C -> dst_of C s = dst_of C s' -> s = s'.
Proof. exact dst_of_inj. Qed.

(* a signature under one scheme presented under another verifies only at a hash collision
   between two different (input, tag) pairs *)
Theorem C05_cross_scheme_needs_collision :
  forall (K : FieldOps) (laws : FieldLaws K) (O : Oracles K) (C : Impl)
         (sk : car K) (s : scheme) (msg : bytes) (sg : tagged) (s' : scheme) (msg' : bytes),
    sk_sign O C sk s msg = Ok sg ->
    sig_verify O C (mktagged s' (tg_pt sg)) (public_key sk) msg' = Ok tt ->
    Hs K O C s' (public_key sk) msg' = Hs K O C s (public_key sk) msg.
Proof. exact sig_verify_other_input. Qed.

Theorem C05_cross_scheme_inputs_differ :
  forall (K : FieldOps) (O : Oracles K) (C : Impl) (s s' : scheme) (pk pk' : pt K Gpk) (msg msg' : bytes),
    is_std_impl C -> s <> s' ->
    (amsg K O s pk msg, dst_of C s) <> (amsg K O s' pk' msg', dst_of C s').
Proof. exact scheme_inputs_differ. Qed.

(* signature over the public-key bytes vs. proof of possession, both directions *)
Theorem C05_signature_is_not_a_pop :
  forall (K : FieldOps) (laws : FieldLaws K) (O : Oracles K) (C : Impl)
         (sk : car K) (s : scheme) (sg : tagged),
    sk_sign O C sk s (enc O (public_key sk)) = Ok sg ->
    pop_wrapper_verify O C (tg_pt sg) (public_key sk) = Ok tt ->
    Hpop K O C (public_key sk) = Hs K O C s (public_key sk) (enc O (public_key sk)).
Proof. exact sig_as_pop. Qed.

Theorem C05_pop_is_not_a_signature :
  forall (K : FieldOps) (laws : FieldLaws K) (O : Oracles K) (C : Impl)
         (sk : car K) (p : pt K Gsig) (s : scheme),
    sk_proof_of_possession O C sk = Ok p ->
    sig_verify O C (mktagged s p) (public_key sk) (enc O (public_key sk)) = Ok tt ->
    Hs K O C s (public_key sk) (enc O (public_key sk)) = Hpop K O C (public_key sk).
Proof. exact pop_as_sig. Qed.

Theorem C05_pop_tag_is_no_signature_tag :
  forall (C : Impl) (s : scheme), is_std_impl C -> DST_POP C <> dst_of C s.
Proof. exact pop_sig_tags_differ. Qed.

Print Assumptions C05_tags_pairwise_distinct.
Print Assumptions C05_ietf_tags.
Print Assumptions C05_tag_selects_scheme.
Print Assumptions C05_cross_scheme_needs_collision.
Print Assumptions C05_cross_scheme_inputs_differ.
Print Assumptions C05_signature_is_not_a_pop.
Print Assumptions C05_pop_is_not_a_signature.
Print Assumptions C05_pop_tag_is_no_signature_tag.
