(* A headline property restated about the GENERATED code (coq/Gen/Funcs.v, produced from /repo/src by rs2v on
   every run): the property theorem of Props transported along the refinement lemmas. *)
From Coq Require Import Permutation.
From BV Require Import Alg.Field Alg.Dlog Sem.Base Model.Oracles Model.Helpers Model.Varint Model.Core
     Model.Protocols Model.Api Theory.CoreFacts Theory.Schemes Theory.Aggregate Gen.Consts Gen.Funcs Refine.Prelude Refine.Tactics
     Refine.SigCore Refine.SigSchemes Refine.WSig Props.C06.

Section G.
  Context (K : FieldOps) (laws : FieldLaws K) (O : Oracles K) (C : Impl) (dbg : bool) (ent : nat -> bytes) (now : N).
  Notation E := (mkEnv K O C dbg ent now).

  (* C06: AggregateSignature::verify on the honest aggregate, as translated *)
  Theorem generated_aggregate_verifies (s : scheme) (sks : list (car K * bytes)) :
    (dbg = true -> hashes_nonzero K O (eff_data K O s (honest_data K sks)) (dst_of C s)) ->
    (s = Basic -> NoDup (map snd sks)) ->
    Forall (fun km => fst km <> f0 K) sks ->
    honest_rhs K O C s sks <> f0 K ->
    gen_AggregateSignature_verify E (honest_aggregate K O C s sks) (honest_data K sks) = Val (Ok tt).
  Proof. intros. rewrite r_agg_verify. apply (C06_complete K laws O C dbg s sks); assumption. Qed.
  (* C06, exactness: the translated verifier accepts exactly when the acceptance condition holds, for every list *)
  Theorem generated_aggregate_verify_exact (a : tagged) (data : list (pt K Gpk * bytes)) :
    (dbg = true -> hashes_nonzero K O (eff_data K O (tg_scheme a) data) (dst_of C (tg_scheme a))) ->
    (gen_AggregateSignature_verify E a data = Val (Ok tt)
     <-> (tg_scheme a = Basic -> NoDup (map snd data))
         /\ dl (tg_pt a) <> f0 K /\ no_id_pk K data
         /\ dl (tg_pt a) = agg_rhs K O (eff_data K O (tg_scheme a) data) (dst_of C (tg_scheme a))).
  Proof. intros. rewrite r_agg_verify. apply (C06_verify_exact K laws O C dbg a data); assumption. Qed.

  (* C06, in any order *)
  Theorem generated_aggregate_permutation (a : tagged) (data data' : list (pt K Gpk * bytes)) :
    (dbg = true -> hashes_nonzero K O (eff_data K O (tg_scheme a) data) (dst_of C (tg_scheme a))) ->
    Permutation data data' ->
    gen_AggregateSignature_verify E a data = Val (Ok tt) ->
    gen_AggregateSignature_verify E a data' = Val (Ok tt).
  Proof. intros H P. rewrite !r_agg_verify. apply (C06_permutation_invariant K laws O C dbg a data data'); assumption. Qed.

  (* C06, Basic: a repeated message is refused whatever the aggregate point *)
  Theorem generated_basic_rejects_repeated_message (p : pt K Gsig) (data : list (pt K Gpk * bytes)) :
    ~ NoDup (map snd data) ->
    gen_AggregateSignature_verify E (mktagged Basic p) data = Val (Err InvalidInputs).
  Proof. intros. rewrite r_agg_verify. apply (C06_basic_rejects_repeated_message K O C dbg p data); assumption. Qed.

  (* C06, TryFrom<&[Signature]> as translated: the plain sum, fewer than two refused, mixed schemes refused *)
  Theorem generated_aggregate_is_sum (s0 s1 : tagged) (rest : list tagged) :
    all_scheme K (tg_scheme s0) (s1 :: rest) ->
    exists p, gen_AggregateSignature_try_from E (s0 :: s1 :: rest) = Val (Ok (mktagged (tg_scheme s0) p))
              /\ dl p = dl (psum (map (@tg_pt K) (s0 :: s1 :: rest))).
  Proof.
    intros H. destruct (C06_aggregate_is_sum K laws s0 s1 rest H) as (p & Hp & Hd).
    exists p. rewrite r_agg_try_from, Hp. split; [reflexivity | exact Hd].
  Qed.

  Theorem generated_aggregate_fewer_than_two (l : list (@tagged K)) :
    (length l < 2)%nat -> gen_AggregateSignature_try_from E l = Val (Err InvalidSignature).
  Proof. intros H. rewrite r_agg_try_from, (C06_fewer_than_two_refused K l H). reflexivity. Qed.

  Theorem generated_aggregate_mixed_refused (s0 s1 : tagged) (rest : list tagged) :
    ~ all_scheme K (tg_scheme s0) (s1 :: rest) ->
    gen_AggregateSignature_try_from E (s0 :: s1 :: rest) = Val (Err InvalidSignatureScheme).
  Proof. intros H. rewrite r_agg_try_from, (C06_mixed_schemes_refused K s0 s1 rest H). reflexivity. Qed.
End G.

Print Assumptions generated_aggregate_verifies.
Print Assumptions generated_aggregate_verify_exact.
Print Assumptions generated_aggregate_permutation.
Print Assumptions generated_basic_rejects_repeated_message.
Print Assumptions generated_aggregate_is_sum.
Print Assumptions generated_aggregate_fewer_than_two.
Print Assumptions generated_aggregate_mixed_refused.
