(* A headline property restated about the GENERATED code (coq/Gen/Funcs.v, produced from /repo/src by rs2v on
   every run): the property theorem of Props transported along the refinement lemmas. *)
From BV Require Import Alg.Field Alg.Dlog Sem.Base Model.Oracles Model.Helpers Model.Varint Model.Core
     Model.Protocols Model.Api Theory.CoreFacts Theory.Schemes Theory.Aggregate Gen.Consts Gen.Funcs Refine.Prelude Refine.Tactics
     Refine.SigCore Refine.SigSchemes Refine.WSig Props.C06.

Section G.
  Context (K : FieldOps) (laws : FieldLaws K) (O : Oracles K) (C : Impl) (dbg : bool) (ent : nat -> bytes) (now : N).
  Notation E := (mkEnv K O C dbg ent now).

  (* C06: AggregateSignature::verify on the honest aggregate, as translated *)
  Theorem generated_aggregate_verifies (s : scheme) (sks : list (car K * bytes)) :
    (dbg = true -> hashes_nonzero K O (eff_data K O s (honest_data K sks)) (dst_of C s)) ->
    (s = Basic -> NoDup (map snd sks)) ->
    Forall (fun km => fst km <> f0 K) sks ->
    honest_rhs K O C s sks <> f0 K ->
    gen_AggregateSignature_verify E (honest_aggregate K O C s sks) (honest_data K sks) = Val (Ok tt).
  Proof. intros. rewrite r_agg_verify. apply (C06_complete K laws O C dbg s sks); assumption. Qed.
End G.

Print Assumptions generated_aggregate_verifies.
