(* Tie #1 (translator), function bodies: what rs2v generates from src/traits/sign_crypt.rs equals the model's. *)
From BV Require Import Alg.Field Alg.Dlog Sem.Base Model.Oracles Model.Helpers Model.Varint Model.Core
     Model.Protocols Theory.VarintFacts Gen.Consts Gen.Funcs Refine.Prelude Refine.Tactics Refine.Frames Refine.SigCore.

Section R.
  Context {K : FieldOps} (O : Oracles K) (C : Impl) (dbg : bool) (ent : nat -> bytes) (now : N).
  Notation E := (mkEnv K O C dbg ent now).
  Notation F := (car K).

  (* ---- sign_crypt.rs ---- *)
  Lemma r_sc_compute_v uar r : gen_BlsSignCrypt_compute_v E uar r = sc_compute_v O dbg uar r.
  Proof.
    unfold gen_BlsSignCrypt_compute_v, sc_compute_v, rs_vec_zeros, repeatN. cbv zeta.
    rewrite repeat_length. cbn [app eO edbg]. r_norm.
    unfold all_zero. destruct (dbg && _); [reflexivity|]. apply bind_ret.
  Qed.
  Hint Rewrite r_sc_compute_v : rfn.

  Lemma r_sc_compute_w u v dst : gen_BlsSignCrypt_compute_w E u v dst = Val (sc_compute_w O u v dst).
  Proof. reflexivity. Qed.
  Hint Rewrite r_sc_compute_w : rfn.

  Lemma r_sc_seal pk message dst w :
    gen_BlsSignCrypt_seal E pk message dst w
    = x <- sc_seal O dbg pk message dst (ent w) ;; Val (x, S w).
  Proof.
    unfold gen_BlsSignCrypt_seal, sc_seal, rng_gen32. cbn [world_rng eent eO edbg fst].
    r_consts. r_auto_with ltac:(progress rewrite pad_loop).
  Qed.

  Lemma r_sc_valid u v w dst : gen_BlsSignCrypt_valid E u v w dst = sc_valid O dbg u v w dst.
  Proof. unfold gen_BlsSignCrypt_valid, sc_valid. r_auto. Qed.
  Hint Rewrite r_sc_valid : rfn.

  Lemma r_sc_verify_share sh pk u v w dst :
    gen_BlsSignCrypt_verify_share E sh pk u v w dst = sc_verify_share O dbg sh pk u v w dst.
  Proof. unfold gen_BlsSignCrypt_verify_share, sc_verify_share. r_auto. Qed.

  Lemma r_sc_create_decryption_share sh u :
    gen_BlsSignCrypt_create_decryption_share E sh u = sc_create_decryption_share O C dbg sh u.
  Proof. unfold gen_BlsSignCrypt_create_decryption_share, sc_create_decryption_share. r_auto. Qed.

  Lemma r_sc_decrypt v ua valid : gen_BlsSignCrypt_decrypt E v ua valid = sc_decrypt O dbg v ua valid.
  Proof.
    unfold gen_BlsSignCrypt_decrypt, sc_decrypt. rewrite r_sc_compute_v.
    destruct (sc_compute_v O dbg ua v) as [p| |]; [|reflexivity|reflexivity]. cbn [bind]. cbv zeta.
    exact (sc_unframe_refines p (fun m => Val (if valid then Some m else None)) (Val None)).
  Qed.
  Hint Rewrite r_sc_decrypt : rfn.

  Lemma r_sc_unseal u v w sk dst : gen_BlsSignCrypt_unseal E u v w sk dst = sc_unseal O dbg u v w sk dst.
  Proof. unfold gen_BlsSignCrypt_unseal, sc_unseal. r_auto. Qed.

  Lemma r_sc_unseal_with_shares u v w shares dst :
    gen_BlsSignCrypt_unseal_with_shares E u v w shares dst = sc_unseal_with_shares O dbg u v w shares dst.
  Proof. unfold gen_BlsSignCrypt_unseal_with_shares, sc_unseal_with_shares, rs_combine_pk. r_auto. Qed.

End R.
#[global] Hint Rewrite @r_sc_compute_v : rfn.
#[global] Hint Rewrite @r_sc_compute_w : rfn.
#[global] Hint Rewrite @r_sc_valid : rfn.
#[global] Hint Rewrite @r_sc_decrypt : rfn.
#[global] Hint Rewrite @r_sc_seal : rfn.
#[global] Hint Rewrite @r_sc_verify_share : rfn.
#[global] Hint Rewrite @r_sc_create_decryption_share : rfn.
#[global] Hint Rewrite @r_sc_unseal : rfn.
#[global] Hint Rewrite @r_sc_unseal_with_shares : rfn.
Print Assumptions r_sc_compute_v.
Print Assumptions r_sc_compute_w.
Print Assumptions r_sc_seal.
Print Assumptions r_sc_valid.
Print Assumptions r_sc_verify_share.
Print Assumptions r_sc_create_decryption_share.
Print Assumptions r_sc_decrypt.
Print Assumptions r_sc_unseal.
Print Assumptions r_sc_unseal_with_shares.
