(* Tie #1 (translator): the constants, merlin labels, enum numbering and serde layouts that rs2v
   regenerates from /repo/src on every run (coq/Gen/Consts.v, Gen/Shapes.v) coincide with the
   model's.  A change of a tag, salt, label, label order, field order or variant order in the
   source - even one applied consistently to producer and consumer - breaks one of these. *)
From BV Require Import Alg.Field Alg.Dlog Sem.Base Model.Oracles Model.Helpers Model.Varint
     Model.Core Model.Protocols Model.Api Model.Codec Theory.ElGamal Gen.Consts Gen.Shapes.

Theorem source_tags_are_the_models :
  g1__Bls12381G1Impl_BlsSignatureBasic__DST = DST_NUL G1Impl /\
  g1__Bls12381G1Impl_BlsSignatureMessageAugmentation__DST = DST_AUG G1Impl /\
  g1__Bls12381G1Impl_BlsSignaturePop__SIG_DST = DST_POPSIG G1Impl /\
  g1__Bls12381G1Impl_BlsSignaturePop__POP_DST = DST_POP G1Impl /\
  g1__Bls12381G1Impl_BlsElGamal__ENC_DST = ENC_DST G1Impl /\
  g2__Bls12381G2Impl_BlsSignatureBasic__DST = DST_NUL G2Impl /\
  g2__Bls12381G2Impl_BlsSignatureMessageAugmentation__DST = DST_AUG G2Impl /\
  g2__Bls12381G2Impl_BlsSignaturePop__SIG_DST = DST_POPSIG G2Impl /\
  g2__Bls12381G2Impl_BlsSignaturePop__POP_DST = DST_POP G2Impl /\
  g2__Bls12381G2Impl_BlsElGamal__ENC_DST = ENC_DST G2Impl.
Proof. repeat split; vm_compute; reflexivity. Qed.

Theorem source_salts_are_the_models :
  helpers__KEYGEN_SALT = KEYGEN_SALT /\
  helpers__scalar_from_hkdf_bytes__INFO = HKDF_INFO /\
  sig_proof__SALT = SALT_POK /\
  sign_crypt__BlsSignCrypt__seal__SALT = SALT_SIGNCRYPT /\
  time_crypt__SALT = SALT_TIMELOCK /\
  elgamal__SALT = SALT_ELGAMAL.
Proof. repeat split; vm_compute; reflexivity. Qed.

(* the merlin calls of prover and verifier, in source order, are the model's transcript *)
Definition model_merlin_calls : list (bytes * bytes) :=
  (bs "new", bs "ElGamalProof")
  :: map (fun l => (bs "append_message", l))
         [bs "dst"; bs "base point"; bs "pk"; bs "generator"; bs "c1"; bs "c2"; bs "r1"; bs "r2"]
  ++ [(bs "challenge_bytes", bs "challenge")].

Theorem source_transcript_labels_are_the_models :
  labels_seal_scalar_with_proof = model_merlin_calls /\ labels_verify_proof = model_merlin_calls.
Proof. split; vm_compute; reflexivity. Qed.

Theorem model_transcript_uses_these_labels (K : FieldOps) (O : Oracles K) (pk g c1 c2 r1 r2 : pt K Gpk) :
  map fst (eg_items K O pk g c1 c2 r1 r2)
  = [bs "dst"; bs "base point"; bs "pk"; bs "generator"; bs "c1"; bs "c2"; bs "r1"; bs "r2"].
Proof. reflexivity. Qed.

(* variant order / explicit discriminants *)
Definition three_schemes : list bytes := [bs "Basic"; bs "MessageAugmentation"; bs "ProofOfPossession"].

Theorem source_variant_order :
  map fst variants_Signature = three_schemes /\ map fst variants_AggregateSignature = three_schemes /\
  map fst variants_MultiSignature = three_schemes /\ map fst variants_ProofCommitment = three_schemes /\
  map fst variants_ProofOfKnowledge = three_schemes /\ map fst variants_SignatureShare = three_schemes /\
  variants_SignatureSchemes = [(bs "Basic", Some 0%N); (bs "MessageAugmentation", Some 1%N); (bs "ProofOfPossession", Some 2%N)] /\
  map fst variants_Bls12381 = [bs "G1"; bs "G2"] /\ map fst variants_SecretKeyEnum = [bs "G1"; bs "G2"].
Proof. repeat split; vm_compute; reflexivity. Qed.

(* serde layouts computed from the struct / enum definitions and their serde attributes *)
Theorem source_layouts_are_the_models (C : Impl) :
  gen_sh_Signature C = sh_signature C /\ gen_sh_AggregateSignature C = sh_signature C /\
  gen_sh_MultiSignature C = sh_signature C /\ gen_sh_ProofCommitment C = sh_signature C /\
  gen_sh_ProofOfKnowledge C = sh_pok C /\ gen_sh_ProofOfKnowledgeTimestamp C = sh_pok_ts C /\
  gen_sh_PublicKey C = sh_pk C /\ gen_sh_MultiPublicKey C = sh_pk C /\
  gen_sh_SignCryptDecryptionKey C = sh_pk C /\ gen_sh_ElGamalDecryptionKey C = sh_pk C /\
  gen_sh_ProofOfPossession C = sh_sig C /\
  gen_sh_SecretKey C = sh_scalar /\ gen_sh_ProofCommitmentSecret C = sh_scalar /\
  gen_sh_ProofCommitmentChallenge C = sh_scalar /\
  gen_sh_SecretKeyShare C = sh_sk_share /\ gen_sh_PublicKeyShare C = sh_pk_share C /\
  gen_sh_SignDecryptionShare C = sh_pk_share C /\ gen_sh_ElGamalDecryptionShare C = sh_pk_share C /\
  gen_sh_SignatureShare C = SEnum 3 (SFixed (S (SIG_LEN C))) /\
  gen_sh_SignCryptCiphertext C = sh_sc_ct C /\ gen_sh_TimeCryptCiphertext C = sh_tl_ct C /\
  gen_sh_ElGamalCiphertext C = sh_eg_ct C /\ gen_sh_ElGamalProof C = sh_eg_proof C /\
  gen_sh_InnerPointShareG1 C = SFixed 49 /\ gen_sh_InnerPointShareG2 C = SFixed 97.
Proof. repeat split. Qed.

(* declaration order of the named fields: the positional binary form follows it even where neighbouring fields
   have the same layout (three scalars, two points), which the shape terms alone cannot see *)
Theorem source_field_order :
  fields_ElGamalCiphertext = [bs "c1"; bs "c2"] /\
  fields_ElGamalProof = [bs "ciphertext"; bs "message_proof"; bs "blinder_proof"; bs "challenge"] /\
  fields_ProofOfKnowledgeTimestamp = [bs "proof"; bs "timestamp"] /\
  fields_SignCryptCiphertext = [bs "u"; bs "v"; bs "w"; bs "scheme"] /\
  fields_TimeCryptCiphertext = [bs "u"; bs "v"; bs "w"; bs "scheme"].
Proof. repeat split; vm_compute; reflexivity. Qed.

Print Assumptions source_field_order.
Print Assumptions source_tags_are_the_models.
Print Assumptions source_salts_are_the_models.
Print Assumptions source_transcript_labels_are_the_models.
Print Assumptions source_variant_order.
Print Assumptions source_layouts_are_the_models.
