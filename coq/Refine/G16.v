(* A headline property restated about the GENERATED code (coq/Gen/Funcs.v, produced from /repo/src by rs2v on
   every run): the byte decoders as translated refuse every other length, every truncation, the empty slice and
   identity payloads - the theorems of Props/C16 transported along the refinement lemmas. *)
From BV Require Import Alg.Field Alg.Dlog Sem.Base Model.Oracles Model.Helpers Model.Varint Model.Core
     Model.Protocols Model.Api Model.Codec Gen.Consts Gen.Funcs Refine.Prelude Refine.PreludeCodec Refine.Tactics
     Refine.WSig Refine.WCodec Refine.WEnum Props.C16.
From Coq Require Import NArith List.
Import ListNotations.
Local Open Scope N_scope.

Section G.
  Context (K : FieldOps) (laws : FieldLaws K) (O : Oracles K) (C : Impl) (dbg : bool) (ent : nat -> bytes) (now : N).
  Context (OL : OracleLaws K O (SIG_LEN C) (PK_LEN C)).
  Notation E := (mkEnv K O C dbg ent now).

  Theorem generated_public_key_exact_length (b : bytes) :
    length b <> PK_LEN C -> gen_PublicKey_try_from_bytes E b = Val (Err InvalidInputs).
  Proof. intros H. rewrite (r_pk_try_from O C dbg ent now OL), (C16_public_key_exact_length K O C b H). reflexivity. Qed.

  Theorem generated_proof_of_possession_exact_length (b : bytes) :
    length b <> SIG_LEN C -> gen_ProofOfPossession_try_from_bytes E b = Val (Err InvalidInputs).
  Proof.
    intros H. rewrite (r_pop_try_from O C dbg ent now OL), (C16_proof_of_possession_exact_length K O C b H). reflexivity.
  Qed.

  Theorem generated_secret_key_exact_length (b : bytes) :
    length b <> 32%nat -> gen_SecretKey_try_from_bytes E b = Val (Err InvalidInputs).
  Proof. intros H. rewrite r_sk_try_from, (C16_secret_key_exact_length K O b H). reflexivity. Qed.

  Theorem generated_proof_commitment_exact_length (b : bytes) :
    length b <> S (SIG_LEN C) -> gen_ProofCommitment_try_from_bytes E b = Val (Err InvalidInputs).
  Proof.
    intros H. rewrite (r_commitment_try_from O C dbg ent now OL), (C16_proof_commitment_exact_length K O C b H).
    reflexivity.
  Qed.

  Theorem generated_signature_truncated (t : tagged) (k : nat) :
    (k < S (SIG_LEN C))%nat ->
    gen_Signature_try_from_bytes E (firstn k (tagged_to_bytes O C t)) = Val (Err InvalidInputs).
  Proof. intros H. rewrite r_signature_try_from, (C16_signature_truncated K O C OL t k H). reflexivity. Qed.

  Theorem generated_sign_crypt_ciphertext_truncated (ct : sc_ct) (k : nat) :
    N.of_nat (length (sc_v ct)) < 2 ^ 64 -> wfb (sc_v ct) -> (k < length (scct_to_bytes O C ct))%nat ->
    gen_SignCryptCiphertext_try_from_bytes E (firstn k (scct_to_bytes O C ct)) = Val (Err DeserializationError).
  Proof.
    intros H1 H2 H3. rewrite r_scct_try_from, (C16_sign_crypt_ciphertext_truncated K O C OL ct k H1 H2 H3). reflexivity.
  Qed.

  Theorem generated_secret_key_enum_empty_rejected :
    gen_SecretKeyEnum_try_from_bytes E [] = Val (Err InvalidInputs).
  Proof. rewrite r_skenum_try_from, (C16_secret_key_enum_empty_rejected K O). reflexivity. Qed.

  Theorem generated_share_verify_invalid_payload (pks : share) (sg : tagged_share) (msg : bytes) :
    dec_pk O (sval pks) = Some (f0 K) \/ dec_sig O (sval (ts_share sg)) = Some (f0 K) ->
    gen_PublicKeyShare_verify E pks sg msg <> Val (Ok tt).
  Proof.
    intros H. rewrite r_pks_verify. intros Hv. injection Hv as Hv.
    exact (C16_share_verify_invalid_payload K laws O C pks sg msg H Hv).
  Qed.
End G.

Print Assumptions generated_public_key_exact_length.
Print Assumptions generated_proof_of_possession_exact_length.
Print Assumptions generated_secret_key_exact_length.
Print Assumptions generated_proof_commitment_exact_length.
Print Assumptions generated_signature_truncated.
Print Assumptions generated_sign_crypt_ciphertext_truncated.
Print Assumptions generated_secret_key_enum_empty_rejected.
Print Assumptions generated_share_verify_invalid_payload.
