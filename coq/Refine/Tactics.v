(* Tactics for the refinement lemmas `generated function = model function` (Refine/*.v). *)
From BV Require Import Alg.Field Alg.Dlog Sem.Base Model.Oracles Model.Helpers Model.Varint Model.Core
     Model.Protocols Refine.Prelude.

Lemma bind_ret {A} (m : M A) : bind m (fun x => Val x) = m.
Proof. destruct m; reflexivity. Qed.

Lemma share_build cap id buf :
  rs_map_err (share_value_mut (share_set_identifier (share_empty cap) id) buf) VsssError = share_with cap id buf.
Proof.
  unfold share_value_mut, share_set_identifier, share_empty, share_with, repeatN; cbn [sval sid].
  rewrite repeat_length. destruct (Nat.ltb (length buf) cap); reflexivity.
Qed.

(* a loop whose body neither returns nor fails is a fold *)
Lemma rs_for_pure {A R S} (l : list A) (f : S -> A -> S) (k : S -> M R) s :
  rs_for l s (fun s a => Val (Next (f s a))) k = k (fold_left f l s).
Proof. revert s; induction l as [|a l IH]; intros s; cbn [rs_for fold_left bind]; [reflexivity|apply IH]. Qed.

Lemma mapM_pure {A B} (f : A -> B) (l : list A) : mapM (fun a => Val (f a)) l = Val (map f l).
Proof. induction l as [|a l IH]; cbn [mapM map bind]; [reflexivity|]. rewrite IH. reflexivity. Qed.

Lemma mapM_ext {A B} (f : A -> M B) (g : A -> B) (l : list A) :
  (forall a, f a = Val (g a)) -> mapM f l = Val (map g l).
Proof. intros H. induction l as [|a l IH]; cbn [mapM map]; [reflexivity|]. rewrite H, IH. reflexivity. Qed.

(* the result of a function that also returns generator / entropy state *)
Definition mfst {A B} (m : M (A * B)) : M A := x <- m ;; Val (fst x).

Create HintDb rfn.

Ltac not_match c :=
  lazymatch c with
  | if _ then _ else _ => fail
  | match _ with Val _ => _ | Panic => _ | Loop => _ end => fail
  | match _ with Ok _ => _ | Err _ => _ end => fail
  | match _ with Some _ => _ | None => _ end => fail
  | _ => idtac
  end.
Ltac r_step :=
  match goal with
  | |- context [if ?c then _ else _] => not_match c; destruct c eqn:?
  | |- context [match ?c with Ok _ => _ | Err _ => _ end] => not_match c; destruct c eqn:?
  | |- context [match ?c with Some _ => _ | None => _ end] => not_match c; destruct c eqn:?
  | |- context [match ?c with Val _ => _ | Panic => _ | Loop => _ end] => not_match c; destruct c eqn:?
  | |- context [let '(_, _) := ?c in _] => not_match c; destruct c eqn:?
  end.
Ltac r_lits :=
  repeat match goal with
  | |- context [N.to_nat (Npos ?p)] =>
    let v := eval compute in (N.to_nat (Npos p)) in change (N.to_nat (Npos p)) with v
  | |- context [N.to_nat N0] => change (N.to_nat N0) with O
  end.
Ltac r_norm := cbv beta iota zeta delta [bind bind_res dassert ret_ok ret_err
   eO eC edbg eent enow rs_mul rs_add rs_sub rs_neg rs_eqb rs_ltb rs_leb rs_num
   mul_pt mul_nat mul_N add_pt add_nat add_N sub_pt sub_nat neg_pt eqb_nat eqb_N eqb_bytes ltb_nat ltb_N
   leb_nat leb_N num_nat num_N mul_F add_F sub_F neg_F eqb_F fst snd
   rs_unwrap unwrap_option unwrap_res rs_try_array tr_new tr_append tr_challenge rs_from_bytes_wide
   rng_random world_rng rng_gen32]; cbn [app]; r_lits.
Ltac r_auto_with tac :=
  r_norm;
  repeat (first [reflexivity | discriminate | progress rewrite ?share_build | tac
                | progress (autorewrite with rfn; r_norm) | (r_step; r_norm)]);
  try congruence.
Ltac r_auto := r_auto_with fail.
