(* Tie #1 (translator), function bodies: what rs2v generates from src/traits/sig_core.rs equals the model's. *)
From BV Require Import Alg.Field Alg.Dlog Sem.Base Model.Oracles Model.Helpers Model.Varint Model.Core
     Model.Protocols Theory.VarintFacts Gen.Consts Gen.Funcs Refine.Prelude Refine.Tactics.

Section R.
  Context {K : FieldOps} (O : Oracles K) (C : Impl) (dbg : bool) (ent : nat -> bytes) (now : N).
  Notation E := (mkEnv K O C dbg ent now).
  Notation F := (car K).

  Lemma r_public_key sk : gen_BlsSignatureCore_public_key E sk = Val (public_key sk).
  Proof. reflexivity. Qed.
  Hint Rewrite r_public_key : rfn.

  Lemma r_core_sign sk msg dst : gen_BlsSignatureCore_core_sign E sk msg dst = Val (core_sign O sk msg dst).
  Proof. unfold gen_BlsSignatureCore_core_sign, core_sign. r_auto. Qed.
  Hint Rewrite r_core_sign : rfn.

  Lemma r_core_verify pk sig msg dst :
    gen_BlsSignatureCore_core_verify E pk sig msg dst = Val (core_verify O pk sig msg dst).
  Proof. unfold gen_BlsSignatureCore_core_verify, core_verify. r_auto. Qed.
  Hint Rewrite r_core_verify : rfn.

  Lemma r_public_key_share_with_generator sks g :
    gen_BlsSignatureCore_public_key_share_with_generator E sks g = Val (public_key_share_with_generator O C sks g).
  Proof. unfold gen_BlsSignatureCore_public_key_share_with_generator, public_key_share_with_generator. r_auto. Qed.
  Hint Rewrite r_public_key_share_with_generator : rfn.

  Lemma r_public_key_share sks : gen_BlsSignatureCore_public_key_share E sks = Val (public_key_share O C sks).
  Proof. unfold gen_BlsSignatureCore_public_key_share, public_key_share. r_auto. Qed.

  Lemma r_aggregate_signatures sigs :
    gen_BlsSignatureCore_aggregate_signatures E sigs = Val (aggregate_signatures sigs).
  Proof. unfold gen_BlsSignatureCore_aggregate_signatures, aggregate_signatures. r_norm.
    rewrite (rs_for_pure sigs (fun r s => padd r s)). reflexivity. Qed.

  Lemma r_aggregate_public_keys pks :
    gen_BlsSignatureCore_aggregate_public_keys E pks = Val (aggregate_public_keys pks).
  Proof. unfold gen_BlsSignatureCore_aggregate_public_keys, aggregate_public_keys. r_norm.
    rewrite (rs_for_pure pks (fun r s => padd r s)). reflexivity. Qed.
  Hint Rewrite r_aggregate_public_keys : rfn.

  Lemma r_core_partial_sign sks msg dst :
    gen_BlsSignatureCore_core_partial_sign E sks msg dst = Val (core_partial_sign O C sks msg dst).
  Proof. unfold gen_BlsSignatureCore_core_partial_sign, core_partial_sign. r_auto. Qed.
  Hint Rewrite r_core_partial_sign : rfn.

  Lemma r_core_signature_share_verify pks sig msg dst :
    gen_BlsSignatureCore_core_signature_share_verify E pks sig msg dst
    = Val (core_signature_share_verify O pks sig msg dst).
  Proof. unfold gen_BlsSignatureCore_core_signature_share_verify, core_signature_share_verify. r_auto. Qed.
  Hint Rewrite r_core_signature_share_verify : rfn.

  Lemma r_core_combine_signature_shares shares :
    gen_BlsSignatureCore_core_combine_signature_shares E shares = core_combine_signature_shares O shares.
  Proof. unfold gen_BlsSignatureCore_core_combine_signature_shares, rs_combine_sig. r_norm.
    destruct (core_combine_signature_shares O shares) as [[x|e]| |]; reflexivity. Qed.

  Lemma r_core_combine_public_key_shares shares :
    gen_BlsSignatureCore_core_combine_public_key_shares E shares = core_combine_public_key_shares O shares.
  Proof. unfold gen_BlsSignatureCore_core_combine_public_key_shares, rs_combine_pk. r_norm.
    destruct (core_combine_public_key_shares O shares) as [[x|e]| |]; reflexivity. Qed.

  (* the verification loop over (public key, message) pairs *)
  Lemma agg_loop_refines (R0 : Type) pks dst body :
    (forall pairs i pk msg, body pairs (i, (pk, msg)) =
         if is_id pk then Val (Ret (Err InvalidInputs))
         else let a := hash_to_point O msg dst in
              dassert dbg (negb (is_id a)) (let pairs := pairs ++ [(a, pk)] in Val (Next pairs))) ->
    forall n pairs (k : list (pt K Gsig * pt K Gpk) -> M (res R0)),
    rs_for (rs_enumerate_from n pks) pairs body k
    = r <- agg_pairs O dbg pks dst pairs ;; match r with Ok p => k p | Err e => Val (Err e) end.
  Proof.
    intros Hb. induction pks as [|[pk msg] pks IH]; intros n pairs k; cbn [rs_enumerate_from rs_for agg_pairs].
    - reflexivity.
    - rewrite Hb. destruct (is_id pk); [reflexivity|]. cbv zeta. unfold dassert.
      destruct (dbg && negb (negb (is_id (hash_to_point O msg dst)))); [reflexivity|].
      cbn [bind]. apply IH.
  Qed.

  Lemma r_core_aggregate_verify pks sig dst :
    gen_BlsSignatureCore_core_aggregate_verify E pks sig dst = core_aggregate_verify O dbg pks sig dst.
  Proof.
    unfold gen_BlsSignatureCore_core_aggregate_verify, core_aggregate_verify, rs_enumerate. r_norm.
    destruct (is_id sig); [reflexivity|].
    erewrite agg_loop_refines by (intros; reflexivity).
    destruct (agg_pairs O dbg pks dst []) as [[p|e]| |]; try reflexivity.
  Qed.
  Hint Rewrite r_core_aggregate_verify : rfn.

End R.
#[global] Hint Rewrite @r_public_key : rfn.
#[global] Hint Rewrite @r_core_sign : rfn.
#[global] Hint Rewrite @r_core_verify : rfn.
#[global] Hint Rewrite @r_public_key_share_with_generator : rfn.
#[global] Hint Rewrite @r_aggregate_public_keys : rfn.
#[global] Hint Rewrite @r_core_partial_sign : rfn.
#[global] Hint Rewrite @r_core_signature_share_verify : rfn.
#[global] Hint Rewrite @r_core_aggregate_verify : rfn.
#[global] Hint Rewrite @r_public_key_share : rfn.
#[global] Hint Rewrite @r_aggregate_signatures : rfn.
#[global] Hint Rewrite @r_core_combine_signature_shares : rfn.
#[global] Hint Rewrite @r_core_combine_public_key_shares : rfn.
Print Assumptions r_public_key.
Print Assumptions r_core_sign.
Print Assumptions r_core_verify.
Print Assumptions r_public_key_share_with_generator.
Print Assumptions r_public_key_share.
Print Assumptions r_aggregate_signatures.
Print Assumptions r_aggregate_public_keys.
Print Assumptions r_core_partial_sign.
Print Assumptions r_core_signature_share_verify.
Print Assumptions r_core_combine_signature_shares.
Print Assumptions r_core_combine_public_key_shares.
Print Assumptions r_core_aggregate_verify.
