(* Tie #1 (translator), function bodies of the wrapper types: public_key.rs encryption entry points, sign_crypt_ciphertext.rs, sign_decryption_share.rs, time_crypt_ciphertext.rs, elgamal_*.rs;
   what rs2v generates equals the model (Model/Api.v). *)
From BV Require Import Alg.Field Alg.Dlog Sem.Base Model.Oracles Model.Helpers Model.Varint Model.Core
     Model.Protocols Model.Api Theory.VarintFacts Gen.Consts Gen.Funcs Refine.Prelude Refine.Tactics Refine.Frames
     Refine.SigCore Refine.SigSchemes Refine.SignCrypt Refine.TimeLock Refine.ElGamal.

Section R.
  Context {K : FieldOps} (O : Oracles K) (C : Impl) (dbg : bool) (ent : nat -> bytes) (now : N).
  Notation E := (mkEnv K O C dbg ent now).
  Notation F := (car K).

  (* ---- public_key.rs: encryption entry points ---- *)
  Lemma r_pk_sign_crypt pk s msg w : gen_PublicKey_sign_crypt E pk s msg w = pk_sign_crypt O C dbg ent pk s msg w.
  Proof.
    unfold gen_PublicKey_sign_crypt, pk_sign_crypt, dst_of. cbv zeta. cbn [eC]. rewrite r_sc_seal.
    destruct (sc_seal O dbg pk msg _ (ent w)) as [[[u v] wp]| |]; reflexivity.
  Qed.
  Lemma r_pk_encrypt_time_lock pk s msg id w :
    gen_PublicKey_encrypt_time_lock E pk s msg id w = pk_encrypt_time_lock O C dbg ent pk s msg id w.
  Proof.
    unfold gen_PublicKey_encrypt_time_lock, pk_encrypt_time_lock, dst_of. cbv zeta. cbn [eC].
    destruct s; rewrite ?r_pk_bytes; cbn [bind]; rewrite r_tl_seal;
      (destruct (is_id pk); [reflexivity|]);
      (destruct (tl_seal O dbg pk msg _ _ (ent w)) as [[[[u v] wp]|e]| |]; reflexivity).
  Qed.
  Lemma r_pk_encrypt_key_el_gamal pk sk w :
    gen_PublicKey_encrypt_key_el_gamal E pk sk w = pk_encrypt_key_el_gamal O C dbg ent pk sk w.
  Proof.
    unfold gen_PublicKey_encrypt_key_el_gamal, pk_encrypt_key_el_gamal. cbn [world_rng eent].
    pose proof (r_eg_seal_scalar O C dbg ent now pk sk None None (ent w) 0) as H. unfold mfst in H.
    rewrite <- H. destruct (gen_BlsElGamal_seal_scalar E pk sk None None (ent w, 0%nat)) as [[[[c1 c2]|e] g]| |];
      reflexivity.
  Qed.
  Lemma r_pk_encrypt_key_el_gamal_with_proof pk sk w :
    gen_PublicKey_encrypt_key_el_gamal_with_proof E pk sk w
    = pk_encrypt_key_el_gamal_with_proof O C dbg ent pk sk w.
  Proof.
    unfold gen_PublicKey_encrypt_key_el_gamal_with_proof, pk_encrypt_key_el_gamal_with_proof.
    cbn [world_rng eent].
    pose proof (r_eg_seal_scalar_with_proof O C dbg ent now pk sk None None (ent w)) as H. unfold mfst in H.
    rewrite <- H.
    destruct (gen_BlsElGamal_seal_scalar_with_proof E pk sk None None (ent w, 0%nat))
      as [[[[[[[c1 c2] mp] bp] ch]|e] g]| |]; reflexivity.
  Qed.

  (* ---- sign_crypt_ciphertext.rs, sign_decryption_share.rs ---- *)
  Lemma r_scct_create_decryption_share ct sks :
    gen_SignCryptCiphertext_create_decryption_share E ct sks = Val (scct_create_decryption_share O C ct sks).
  Proof. unfold gen_SignCryptCiphertext_create_decryption_share, scct_create_decryption_share. r_auto. Qed.
  Lemma r_scct_decrypt_with_shares ct shares :
    gen_SignCryptCiphertext_decrypt_with_shares E ct shares = scct_decrypt_with_shares O C dbg ct shares.
  Proof.
    unfold gen_SignCryptCiphertext_decrypt_with_shares, scct_decrypt_with_shares, dst_of. cbv zeta.
    rewrite map_id. cbn [eC]. rewrite r_sc_unseal_with_shares. apply bind_ret.
  Qed.
  Lemma r_scct_decrypt ct sk : gen_SignCryptCiphertext_decrypt E ct sk = scct_decrypt O C dbg ct sk.
  Proof.
    unfold gen_SignCryptCiphertext_decrypt, scct_decrypt, dst_of. cbv zeta. cbn [eC].
    rewrite r_sc_unseal. apply bind_ret.
  Qed.
  Lemma r_scct_is_valid ct : gen_SignCryptCiphertext_is_valid E ct = scct_is_valid O C dbg ct.
  Proof.
    unfold gen_SignCryptCiphertext_is_valid, scct_is_valid.
    destruct (sc_scheme ct); cbn [eC]; rewrite r_sc_valid; apply bind_ret.
  Qed.
  Lemma r_scdk_decrypt dk ct : gen_SignCryptDecryptionKey_decrypt E dk ct = scdk_decrypt O C dbg dk ct.
  Proof.
    unfold gen_SignCryptDecryptionKey_decrypt, scdk_decrypt, dst_of. cbv zeta. cbn [eC].
    rewrite r_sc_valid. destruct (sc_valid O dbg (sc_u ct) (sc_v ct) (sc_w ct) _) as [c| |]; try reflexivity.
    cbn [bind]. rewrite r_sc_decrypt. apply bind_ret.
  Qed.
  Lemma r_sds_verify sh pks ct : gen_SignDecryptionShare_verify E sh pks ct = sds_verify O C dbg sh pks ct.
  Proof.
    unfold gen_SignDecryptionShare_verify, sds_verify, dst_of. cbn [eO eC].
    destruct (share_as_pk O sh) as [s|e]; [|reflexivity].
    destruct (share_as_pk O pks) as [pk|e]; [|reflexivity]. cbv zeta.
    rewrite r_sc_verify_share. reflexivity.
  Qed.

  (* ---- time_crypt_ciphertext.rs ---- *)
  Lemma r_tlct_decrypt ct sg : gen_TimeCryptCiphertext_decrypt E ct sg = tlct_decrypt O dbg ct sg.
  Proof.
    unfold gen_TimeCryptCiphertext_decrypt, tlct_decrypt.
    destruct sg as [[] p], ct as [u v w []]; cbn [tg_scheme tg_pt tl_scheme tl_u tl_v tl_w scheme_eqb];
      rewrite r_tl_unseal; apply bind_ret.
  Qed.

  (* ---- elgamal_*.rs ---- *)
  Lemma r_egct_decrypt ct sk : gen_ElGamalCiphertext_decrypt E ct sk = Val (egct_decrypt ct sk).
  Proof. unfold gen_ElGamalCiphertext_decrypt, egct_decrypt. r_auto. Qed.
  Lemma r_egdk_decrypt dk ct : gen_ElGamalDecryptionKey_decrypt E dk ct = Val (egdk_decrypt dk ct).
  Proof. reflexivity. Qed.
  (* the owned `+` of ElGamalCiphertext, which every other spelling of `+` delegates to *)
  Lemma r_egct_add a b : gen_ElGamalCiphertext_add E a b = Val (egct_add a b).
  Proof. unfold gen_ElGamalCiphertext_add, egct_add. r_auto. Qed.

  Lemma r_egp_verify p pk : gen_ElGamalProof_verify E p pk = Val (egp_verify O C p pk).
  Proof. unfold gen_ElGamalProof_verify, egp_verify. r_auto. Qed.
  Lemma r_egp_verify_and_decrypt p sk :
    gen_ElGamalProof_verify_and_decrypt E p sk = Val (egp_verify_and_decrypt O C p sk).
  Proof. unfold gen_ElGamalProof_verify_and_decrypt, egp_verify_and_decrypt. r_auto. Qed.
  Lemma r_scdk_from_shares shares : gen_SignCryptDecryptionKey_from_shares E shares = scdk_from_shares O shares.
  Proof. unfold gen_SignCryptDecryptionKey_from_shares, scdk_from_shares. cbv zeta. rewrite map_id.
    rewrite r_core_combine_public_key_shares. apply bind_ret. Qed.
  Lemma r_egdk_from_shares shares : gen_ElGamalDecryptionKey_from_shares E shares = egdk_from_shares O shares.
  Proof. unfold gen_ElGamalDecryptionKey_from_shares, egdk_from_shares. cbv zeta. rewrite map_id.
    rewrite r_core_combine_public_key_shares. apply bind_ret. Qed.
End R.
#[global] Hint Rewrite @r_pk_sign_crypt : rfn.
#[global] Hint Rewrite @r_pk_encrypt_time_lock : rfn.
#[global] Hint Rewrite @r_pk_encrypt_key_el_gamal : rfn.
#[global] Hint Rewrite @r_pk_encrypt_key_el_gamal_with_proof : rfn.
#[global] Hint Rewrite @r_scct_create_decryption_share : rfn.
#[global] Hint Rewrite @r_scct_decrypt_with_shares : rfn.
#[global] Hint Rewrite @r_scct_decrypt : rfn.
#[global] Hint Rewrite @r_scct_is_valid : rfn.
#[global] Hint Rewrite @r_scdk_decrypt : rfn.
#[global] Hint Rewrite @r_sds_verify : rfn.
#[global] Hint Rewrite @r_tlct_decrypt : rfn.
#[global] Hint Rewrite @r_egct_decrypt : rfn.
#[global] Hint Rewrite @r_egdk_decrypt : rfn.
#[global] Hint Rewrite @r_egp_verify : rfn.
#[global] Hint Rewrite @r_egp_verify_and_decrypt : rfn.
#[global] Hint Rewrite @r_scdk_from_shares : rfn.
#[global] Hint Rewrite @r_egdk_from_shares : rfn.
Print Assumptions r_pk_sign_crypt.
Print Assumptions r_pk_encrypt_time_lock.
Print Assumptions r_pk_encrypt_key_el_gamal.
Print Assumptions r_pk_encrypt_key_el_gamal_with_proof.
Print Assumptions r_scct_create_decryption_share.
Print Assumptions r_scct_decrypt_with_shares.
Print Assumptions r_scct_decrypt.
Print Assumptions r_scct_is_valid.
Print Assumptions r_scdk_decrypt.
Print Assumptions r_sds_verify.
Print Assumptions r_tlct_decrypt.
Print Assumptions r_egct_decrypt.
Print Assumptions r_egct_add.
Print Assumptions r_egdk_decrypt.
Print Assumptions r_egp_verify.
Print Assumptions r_egp_verify_and_decrypt.
Print Assumptions r_scdk_from_shares.
Print Assumptions r_egdk_from_shares.
