(* Headline properties restated about the GENERATED code: ElGamal with proof (C14). *)
From BV Require Import Alg.Field Alg.Dlog Sem.Base Model.Oracles Model.Helpers Model.Varint Model.Core
     Model.Protocols Model.Api Theory.CoreFacts Theory.Schemes Theory.ElGamal
     Gen.Consts Gen.Funcs Refine.Prelude Refine.Tactics Refine.ElGamal Props.C14.

Section G.
  Context (K : FieldOps) (laws : FieldLaws K) (O : Oracles K) (C : Impl) (dbg : bool) (ent : nat -> bytes) (now : N).
  Notation E := (mkEnv K O C dbg ent now).

  (* BlsElGamal::decrypt as translated undoes the encryption *)
  Theorem generated_elgamal_decrypt_correct (sk : car K) (gen : pt K Gpk) (m b : car K) :
    let '(c1, c2) := eg_ct_of K (public_key sk) gen m b in
    gen_BlsElGamal_decrypt E sk c1 c2 = Val (pmul gen m).
  Proof.
    pose proof (C14_decrypt_correct K laws sk gen m b) as H.
    destruct (eg_ct_of K (public_key sk) gen m b) as [c1 c2]. rewrite r_eg_decrypt, H. reflexivity.
  Qed.

  (* an honest proof is accepted by verify_and_decrypt as translated, which returns generator * message *)
  Theorem generated_elgamal_verify_and_decrypt (sk m b r : car K) :
    let '(c1, c2, mp, bp, ch) := eg_proof_of K O (public_key sk) (message_generator O C) m b r in
    sk <> f0 K -> dl (message_generator O C) <> f0 K -> dl c1 <> f0 K -> dl c2 <> f0 K ->
    mp <> f0 K -> bp <> f0 K -> ch <> f0 K ->
    gen_BlsElGamal_verify_and_decrypt E sk None c1 c2 mp bp ch = Val (Ok (pmul (message_generator O C) m)).
  Proof.
    pose proof (C14_verify_and_decrypt_complete K laws O C sk m b r) as H.
    destruct (eg_proof_of K O (public_key sk) (message_generator O C) m b r) as [[[[c1 c2] mp] bp] ch].
    intros. rewrite r_eg_verify_and_decrypt, H by assumption. reflexivity.
  Qed.
End G.

Print Assumptions generated_elgamal_decrypt_correct.
Print Assumptions generated_elgamal_verify_and_decrypt.
