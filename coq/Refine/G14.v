(* Headline properties restated about the GENERATED code: ElGamal with proof (C14). *)
From BV Require Import Alg.Field Alg.Dlog Sem.Base Model.Oracles Model.Helpers Model.Varint Model.Core
     Model.Protocols Model.Api Theory.CoreFacts Theory.Schemes Theory.ElGamal
     Gen.Consts Gen.Funcs Refine.Prelude Refine.Tactics Refine.ElGamal Refine.WEnc Props.C14.

Section G.
  Context (K : FieldOps) (laws : FieldLaws K) (O : Oracles K) (C : Impl) (dbg : bool) (ent : nat -> bytes) (now : N).
  Notation E := (mkEnv K O C dbg ent now).

  (* BlsElGamal::decrypt as translated undoes the encryption *)
  Theorem generated_elgamal_decrypt_correct (sk : car K) (gen : pt K Gpk) (m b : car K) :
    let '(c1, c2) := eg_ct_of K (public_key sk) gen m b in
    gen_BlsElGamal_decrypt E sk c1 c2 = Val (pmul gen m).
  Proof.
    pose proof (C14_decrypt_correct K laws sk gen m b) as H.
    destruct (eg_ct_of K (public_key sk) gen m b) as [c1 c2]. rewrite r_eg_decrypt, H. reflexivity.
  Qed.

  (* an honest proof is accepted by verify_and_decrypt as translated, which returns generator * message *)
  Theorem generated_elgamal_verify_and_decrypt (sk m b r : car K) :
    let '(c1, c2, mp, bp, ch) := eg_proof_of K O (public_key sk) (message_generator O C) m b r in
    sk <> f0 K -> dl (message_generator O C) <> f0 K -> dl c1 <> f0 K -> dl c2 <> f0 K ->
    mp <> f0 K -> bp <> f0 K -> ch <> f0 K ->
    gen_BlsElGamal_verify_and_decrypt E sk None c1 c2 mp bp ch = Val (Ok (pmul (message_generator O C) m)).
  Proof.
    pose proof (C14_verify_and_decrypt_complete K laws O C sk m b r) as H.
    destruct (eg_proof_of K O (public_key sk) (message_generator O C) m b r) as [[[[c1 c2] mp] bp] ch].
    intros. rewrite r_eg_verify_and_decrypt, H by assumption. reflexivity.
  Qed.
  (* C14, exactness: the translated BlsElGamal::verify_proof accepts exactly when every guard holds and the challenge
     is the Fiat-Shamir transcript of key, generator, ciphertext and recomputed commitments *)
  Theorem generated_elgamal_verify_exact (pk : pt K Gpk) (gen : option (pt K Gpk)) (c1 c2 : pt K Gpk) (mp bp ch : car K) :
    let g := match gen with Some g => g | None => message_generator O C end in
    gen_BlsElGamal_verify_proof E pk gen c1 c2 mp bp ch = Val (Ok tt)
    <-> dl pk <> f0 K /\ dl g <> f0 K /\ dl c1 <> f0 K /\ dl c2 <> f0 K /\ mp <> f0 K /\ bp <> f0 K /\ ch <> f0 K
        /\ ch = eg_transcript O pk g c1 c2 (R1 K c1 ch bp) (R2 K pk g c2 ch mp bp).
  Proof.
    intros g. rewrite r_eg_verify_proof.
    pose proof (C14_verify_exact K laws O C pk gen c1 c2 mp bp ch) as X. cbv zeta in X. fold g in X.
    split; [intros H; apply X; injection H; auto | intros H; apply X in H; rewrite H; reflexivity].
  Qed.

  (* C14: the translated verify_and_decrypt opens only proofs that verify under the decryptor's own public key *)
  Theorem generated_elgamal_uses_own_key (sk : car K) (gen : option (pt K Gpk)) (c1 c2 : pt K Gpk)
          (mp bp ch : car K) (p : pt K Gpk) :
    gen_BlsElGamal_verify_and_decrypt E sk gen c1 c2 mp bp ch = Val (Ok p) ->
    gen_BlsElGamal_verify_proof E (public_key sk) gen c1 c2 mp bp ch = Val (Ok tt) /\ p = eg_decrypt sk c1 c2.
  Proof.
    rewrite r_eg_verify_and_decrypt, r_eg_verify_proof. intros H. injection H as H.
    destruct (C14_uses_own_key K O C sk gen c1 c2 mp bp ch p H) as [Hv Hp]. rewrite Hv. split; [reflexivity|exact Hp].
  Qed.

  (* C14: the identity recipient key is refused by the translated seal_scalar *)
  Theorem generated_elgamal_identity_key_refused (pk : pt K Gpk) (m : car K) (gen : option (pt K Gpk))
          (blinder : option (car K)) (seed : bytes) (k : nat) :
    dl pk = f0 K -> mfst (gen_BlsElGamal_seal_scalar E pk m gen blinder (seed, k)) = Val (Err InvalidInputs).
  Proof. intros H. rewrite r_eg_seal_scalar. apply (C14_identity_key_refused K laws O C dbg pk m gen blinder seed k H). Qed.
  (* C14, homomorphism: the translated `+` of two ciphertexts decrypts, with the translated decrypt, to the sum of
     the two plaintext points *)
  Theorem generated_elgamal_homomorphic (a b : eg_ct) (sk : car K) :
    exists c, gen_ElGamalCiphertext_add E a b = Val c
              /\ gen_ElGamalCiphertext_decrypt E c sk = Val (padd (egct_decrypt a sk) (egct_decrypt b sk)).
  Proof.
    exists (egct_add a b). rewrite r_egct_add, r_egct_decrypt, (C14_homomorphic K laws a b sk). split; reflexivity.
  Qed.
End G.

Print Assumptions generated_elgamal_decrypt_correct.
Print Assumptions generated_elgamal_verify_and_decrypt.
Print Assumptions generated_elgamal_verify_exact.
Print Assumptions generated_elgamal_uses_own_key.
Print Assumptions generated_elgamal_identity_key_refused.
Print Assumptions generated_elgamal_homomorphic.
