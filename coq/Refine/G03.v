(* A headline property restated about the GENERATED code (coq/Gen/Funcs.v, produced from /repo/src by rs2v on
   every run): the property theorems of Props transported along the refinement lemmas. *)
From BV Require Import Alg.Field Alg.Dlog Sem.Base Model.Oracles Model.Helpers Model.Varint Model.Core
     Model.Protocols Model.Api Theory.CoreFacts Theory.Schemes Gen.Consts Gen.Funcs Refine.Prelude Refine.Tactics
     Refine.SigCore Refine.SigSchemes Refine.WSig Props.C03.

Section G.
  Context (K : FieldOps) (laws : FieldLaws K) (O : Oracles K) (C : Impl) (dbg : bool) (ent : nat -> bytes) (now : N).
  Notation E := (mkEnv K O C dbg ent now).

  (* C03: SecretKey::sign as translated is the draft's Sign: SK * hash_to_point(msg resp. PK || msg, scheme tag) *)
  Theorem generated_sign_value (sk : car K) (s : scheme) (msg : bytes) :
    sk <> f0 K ->
    gen_SecretKey_sign E sk s msg =
    Val (Ok {| tg_scheme := s; tg_pt := {| dl := fmul K (Hs K O C s (public_key sk) msg) sk |} |}).
  Proof. intros Hk. rewrite r_sk_sign, (C03_sign_value K laws O C sk s msg Hk). reflexivity. Qed.

  (* SecretKey::from_hash as translated is KeyGen under the draft's salt *)
  Theorem generated_keygen (data : bytes) :
    gen_SecretKey_from_hash E data = scalar_from_hkdf_bytes O KEYGEN_SALT data.
  Proof. rewrite r_sk_from_hash. apply C03_keygen_salt. Qed.

  (* Signature::verify as translated is CoreVerify over the same input and tag *)
  Theorem generated_verify_is_core_verify (sg : tagged) (pk : pt K Gpk) (msg : bytes) :
    gen_Signature_verify E sg pk msg =
    Val (core_verify O pk (tg_pt sg) (amsg K O (tg_scheme sg) pk msg) (dst_of C (tg_scheme sg))).
  Proof. rewrite r_sig_verify, C03_verify_is_core_verify. reflexivity. Qed.
  (* C03: the translated trait-level core_verify is the draft's CoreVerify with the two identity guards *)
  Theorem generated_core_verify_exact (pk : pt K Gpk) (sig : pt K Gsig) (msg dst : bytes) :
    gen_BlsSignatureCore_core_verify E pk sig msg dst = Val (Ok tt)
    <-> dl sig <> f0 K /\ dl pk <> f0 K /\ dl sig = fmul K (dl pk) (eta O msg dst).
  Proof.
    rewrite r_core_verify. pose proof (C03_core_verify K laws O pk sig msg dst) as X.
    split; [intros H; apply X; injection H; auto | intros H; apply X in H; rewrite H; reflexivity].
  Qed.

  (* C03: the translated SecretKey::sign is CoreSign of the scheme's input under the scheme's tag *)
  Theorem generated_sign_is_core_sign (sk : car K) (s : scheme) (msg : bytes) :
    gen_SecretKey_sign E sk s msg
    = Val (match core_sign O sk (amsg K O s (public_key sk) msg) (dst_of C s) with
           | Ok p => Ok (mktagged s p) | Err e => Err e end).
  Proof. rewrite r_sk_sign, (C03_sign_is_core_sign K O C sk s msg). reflexivity. Qed.

  (* C03: PopVerify as translated = CoreVerify of the key bytes under the POP tag, with the identity guards *)
  Theorem generated_pop_verify_is_draft (p : pt K Gsig) (pk : pt K Gpk) :
    gen_ProofOfPossession_verify E p pk = Val (Ok tt)
    <-> dl p <> f0 K /\ dl pk <> f0 K /\ dl p = fmul K (dl pk) (Hpop K O C pk).
  Proof.
    rewrite r_pop_wrapper_verify. pose proof (C03_pop K laws O C p pk) as X.
    split; [intros H; apply X; injection H; auto | intros H; apply X in H; rewrite H; reflexivity].
  Qed.
End G.

Print Assumptions generated_sign_value.
Print Assumptions generated_keygen.
Print Assumptions generated_verify_is_core_verify.
Print Assumptions generated_core_verify_exact.
Print Assumptions generated_sign_is_core_sign.
Print Assumptions generated_pop_verify_is_draft.
