(* A headline property restated about the GENERATED code (coq/Gen/Funcs.v, produced from /repo/src by rs2v on
   every run): the property theorem of Props transported along the refinement lemmas. *)
From BV Require Import Alg.Field Alg.Dlog Sem.Base Model.Oracles Model.Helpers Model.Varint Model.Core
     Model.Protocols Model.Api Theory.CoreFacts Theory.Schemes Theory.PoK Gen.Consts Gen.Funcs Refine.Prelude Refine.Tactics
     Refine.PoK Refine.WPoK Props.C10.

Section G.
  Context (K : FieldOps) (laws : FieldLaws K) (O : Oracles K) (C : Impl) (dbg : bool) (ent : nat -> bytes) (now : N).
  Notation E := (mkEnv K O C dbg ent now).

  (* C10: ProofCommitment::finalize then ProofOfKnowledge::verify (Basic / ProofOfPossession), as translated *)
  Theorem generated_pok_verifies (s : scheme) (sk x y : car K) (msg : bytes) :
    s <> Aug -> eta O msg (dst_of C s) <> f0 K -> sk <> f0 K -> x <> f0 K -> y <> f0 K -> fadd K x y <> f0 K ->
    let sig := mktagged s (mkpt (fmul K (eta O msg (dst_of C s)) sk)) in
    let c := mktagged s (mkpt (fmul K (eta O msg (dst_of C s)) x)) in
    exists p, gen_ProofCommitment_finalize E c x y sig = Val (Ok p)
              /\ gen_ProofOfKnowledge_verify E p (public_key sk) msg y = Val (Ok tt).
  Proof.
    intros Hs Hh Hk Hx Hy Hxy sig c.
    destruct (C10_complete_basic_pop K laws O C dbg s sk x y msg Hs Hh Hk Hx Hy Hxy) as (p & Hf & Hv).
    exists p. rewrite r_pc_finalize, r_pok_wrapper_verify. subst sig c. cbv zeta in Hf.
    split; [f_equal; exact Hf|exact Hv].
  Qed.
End G.

Print Assumptions generated_pok_verifies.
