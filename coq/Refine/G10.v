(* A headline property restated about the GENERATED code (coq/Gen/Funcs.v, produced from /repo/src by rs2v on
   every run): the property theorem of Props transported along the refinement lemmas. *)
From BV Require Import Alg.Field Alg.Dlog Sem.Base Model.Oracles Model.Helpers Model.Varint Model.Core
     Model.Protocols Model.Api Theory.CoreFacts Theory.Schemes Theory.PoK Gen.Consts Gen.Funcs Refine.Prelude Refine.Tactics
     Refine.PoK Refine.WPoK Props.C10.

Section G.
  Context (K : FieldOps) (laws : FieldLaws K) (O : Oracles K) (C : Impl) (dbg : bool) (ent : nat -> bytes) (now : N).
  Notation E := (mkEnv K O C dbg ent now).

  (* C10: ProofCommitment::finalize then ProofOfKnowledge::verify (Basic / ProofOfPossession), as translated *)
  Theorem generated_pok_verifies (s : scheme) (sk x y : car K) (msg : bytes) :
    s <> Aug -> eta O msg (dst_of C s) <> f0 K -> sk <> f0 K -> x <> f0 K -> y <> f0 K -> fadd K x y <> f0 K ->
    let sig := mktagged s (mkpt (fmul K (eta O msg (dst_of C s)) sk)) in
    let c := mktagged s (mkpt (fmul K (eta O msg (dst_of C s)) x)) in
    exists p, gen_ProofCommitment_finalize E c x y sig = Val (Ok p)
              /\ gen_ProofOfKnowledge_verify E p (public_key sk) msg y = Val (Ok tt).
  Proof.
    intros Hs Hh Hk Hx Hy Hxy sig c.
    destruct (C10_complete_basic_pop K laws O C dbg s sk x y msg Hs Hh Hk Hx Hy Hxy) as (p & Hf & Hv).
    exists p. rewrite r_pc_finalize, r_pok_wrapper_verify. subst sig c. cbv zeta in Hf.
    split; [f_equal; exact Hf|exact Hv].
  Qed.
  (* C10, exactness: the translated trait-level verifier accepts exactly on the pairing equation with all four guards *)
  Theorem generated_pok_verify_exact (u v : pt K Gsig) (pk : pt K Gpk) (y : car K) (msg dst : bytes) :
    (dbg = true -> eta O msg dst <> f0 K) ->
    (gen_BlsSignatureProof_verify E u v pk y msg dst = Val (Ok tt)
     <-> dl u <> f0 K /\ dl v <> f0 K /\ dl pk <> f0 K /\ y <> f0 K
         /\ fadd K (dl v) (fmul K (fadd K (dl u) (fmul K (eta O msg dst) y)) (dl pk)) = f0 K).
  Proof. intros H. rewrite r_pok_verify. apply (C10_verify_exact K laws O dbg u v pk y msg dst H). Qed.

  (* C10: a proof accepted by the translated verifier is accepted under no other challenge and no other key *)
  Theorem generated_pok_other_challenge_rejected (u v : pt K Gsig) (pk : pt K Gpk) (y y' : car K) (msg dst : bytes) :
    (dbg = true -> eta O msg dst <> f0 K) -> eta O msg dst <> f0 K ->
    gen_BlsSignatureProof_verify E u v pk y msg dst = Val (Ok tt) ->
    gen_BlsSignatureProof_verify E u v pk y' msg dst = Val (Ok tt) -> y' = y.
  Proof. rewrite !r_pok_verify. apply (C10_other_challenge_rejected K laws O dbg u v pk y y' msg dst). Qed.

  Theorem generated_pok_other_key_rejected (u v : pt K Gsig) (pk pk' : pt K Gpk) (y : car K) (msg dst : bytes) :
    (dbg = true -> eta O msg dst <> f0 K) -> fadd K (dl u) (fmul K (eta O msg dst) y) <> f0 K ->
    gen_BlsSignatureProof_verify E u v pk y msg dst = Val (Ok tt) ->
    gen_BlsSignatureProof_verify E u v pk' y msg dst = Val (Ok tt) -> pk' = pk.
  Proof. rewrite !r_pok_verify. apply (C10_other_key_rejected K laws O dbg u v pk pk' y msg dst). Qed.

  (* C10: the translated prover's output and its guards *)
  Theorem generated_pok_prover_output (u : pt K Gsig) (x y : car K) (sig : pt K Gsig) :
    dl u <> f0 K -> dl sig <> f0 K -> x <> f0 K -> y <> f0 K ->
    gen_BlsSignatureProof_generate_proof E u x y sig = Val (Ok (u, pneg (pmul sig (fadd K x y)))).
  Proof. intros. rewrite r_generate_proof, (C10_prover_output K laws u x y sig); auto. Qed.

  Theorem generated_pok_prover_guards (u : pt K Gsig) (x y : car K) (sig : pt K Gsig) :
    dl u = f0 K \/ dl sig = f0 K \/ x = f0 K \/ y = f0 K ->
    gen_BlsSignatureProof_generate_proof E u x y sig = Val (Err InvalidInputs).
  Proof. intros H. rewrite r_generate_proof, (C10_prover_guards K laws u x y sig H). reflexivity. Qed.
End G.

Print Assumptions generated_pok_verifies.
Print Assumptions generated_pok_verify_exact.
Print Assumptions generated_pok_other_challenge_rejected.
Print Assumptions generated_pok_other_key_rejected.
Print Assumptions generated_pok_prover_output.
Print Assumptions generated_pok_prover_guards.
