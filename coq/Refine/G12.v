(* Headline properties restated about the GENERATED code: threshold signcryption decryption (C12). *)
From BV Require Import Alg.Field Alg.Dlog Sem.Base Model.Oracles Model.Helpers Model.Varint Model.Core
     Model.Protocols Model.Api Theory.CoreFacts Theory.Schemes Theory.Poly Theory.Shamir Theory.Threshold Theory.SignCrypt
     Gen.Consts Gen.Funcs Refine.Prelude Refine.Tactics Refine.SigCore Refine.SigSchemes Refine.SignCrypt Refine.TimeLock
     Refine.ElGamal Refine.WEnc Props.C12.

Section G.
  Context (K : FieldOps) (laws : FieldLaws K) (O : Oracles K) (C : Impl) (dbg : bool) (ent : nat -> bytes) (now : N).
  Context (OL : OracleLaws K O (SIG_LEN C) (PK_LEN C)) (EL : EmbedLaw K O).
  Notation E := (mkEnv K O C dbg ent now).

  (* decrypt_with_shares and SignCryptDecryptionKey::{from_shares, decrypt}, as translated, open the honest ciphertext
     from any sufficient set of distinct decryption shares *)
  Theorem generated_threshold_decrypt (sk : car K) (rest coeffs : list (car K)) (msg dst seed : bytes)
          (S0 : list share) (s : scheme) :
    N.of_nat (length msg) < 2 ^ 64 -> coeffs = sk :: rest -> dst = dst_of C s ->
    seal_side_conditions K O dbg (public_key sk) msg dst seed ->
    let '(u, v, w) := sealed K O (public_key sk) msg dst seed in
    NoDup (map sid S0) -> (2 <= length S0)%nat -> (length coeffs <= length S0)%nat ->
    (forall sh, In sh S0 -> good_id (sid sh) /\ sh = pk_share_of K O coeffs (dl u) (sid sh)) ->
    gen_SignCryptCiphertext_decrypt_with_shares E (mkscct u v w s) S0 = Val (Some msg)
    /\ exists dk, gen_SignCryptDecryptionKey_from_shares E S0 = Val (Ok dk)
                  /\ gen_SignCryptDecryptionKey_decrypt E dk (mkscct u v w s) = Val (Some msg).
  Proof.
    intros Hl Hc Hd Hs.
    pose proof (C12_threshold_decrypt K laws O C OL EL dbg sk rest coeffs msg dst seed S0 s Hl Hc Hd Hs) as H.
    destruct (sealed K O (public_key sk) msg dst seed) as [[u v] w].
    intros H1 H2 H3 H4. destruct (H H1 H2 H3 H4) as (Ha & dk & Hb & Hcc).
    split; [rewrite r_scct_decrypt_with_shares; exact Ha|].
    exists dk. rewrite r_scdk_from_shares, r_scdk_decrypt. split; assumption.
  Qed.
  (* C12: participant i's decryption share, as the translated create_decryption_share computes it, is f(i) * U *)
  Theorem generated_decryption_share_is_f_i_U (ct : sc_ct) (coeffs : list (car K)) (i : N) :
    gen_SignCryptCiphertext_create_decryption_share E ct (share_of K O coeffs i)
    = Val (Ok (pk_share_of K O coeffs (dl (sc_u ct)) i)).
  Proof. rewrite r_scct_create_decryption_share, (C12_share_is_f_i_U K O C OL ct coeffs i). reflexivity. Qed.

  (* C12: exact acceptance condition of the translated BlsSignCrypt::verify_share *)
  Theorem generated_decryption_share_verify_exact (sh pk u : pt K Gpk) (v : bytes) (w : pt K Gsig) (dst : bytes) :
    (dbg = true -> Hw K O u v dst <> f0 K) ->
    exists b : bool,
      gen_BlsSignCrypt_verify_share E sh pk u v w dst = Val b
      /\ (b = true <-> dl sh <> f0 K /\ dl pk <> f0 K /\ dl w <> f0 K
                       /\ fmul K (dl w) (dl pk) = fmul K (Hw K O u v dst) (dl sh)).
  Proof. intros H. rewrite r_sc_verify_share. apply (C12_share_verify_exact K laws O dbg sh pk u v w dst H). Qed.

  (* C12: fewer than two shares open nothing in the translated decrypt_with_shares *)
  Theorem generated_decrypt_with_fewer_than_two (ct : sc_ct) (shares : list share) :
    (length shares < 2)%nat -> gen_SignCryptCiphertext_decrypt_with_shares E ct shares = Val None.
  Proof. intros H. rewrite r_scct_decrypt_with_shares. apply (C12_fewer_than_two K O C dbg ct shares H). Qed.
End G.

Print Assumptions generated_threshold_decrypt.
Print Assumptions generated_decryption_share_is_f_i_U.
Print Assumptions generated_decryption_share_verify_exact.
Print Assumptions generated_decrypt_with_fewer_than_two.
