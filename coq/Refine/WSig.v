(* Tie #1 (translator), function bodies of the wrapper types: keys, signatures, shares, accumulators (secret_key, signature, *_share, aggregate_signature, multi_*, proof_of_possession);
   what rs2v generates equals the model (Model/Api.v). *)
From BV Require Import Alg.Field Alg.Dlog Sem.Base Model.Oracles Model.Helpers Model.Varint Model.Core
     Model.Protocols Model.Api Theory.VarintFacts Gen.Consts Gen.Funcs Refine.Prelude Refine.Tactics Refine.Frames
     Refine.SigCore Refine.SigSchemes.

Section R.
  Context {K : FieldOps} (O : Oracles K) (C : Impl) (dbg : bool) (ent : nat -> bytes) (now : N).
  Notation E := (mkEnv K O C dbg ent now).
  Notation F := (car K).

  (* ---- secret_key.rs ---- *)
  Lemma r_sk_public_key sk : gen_SecretKey_public_key E sk = Val (sk_public_key sk).
  Proof. unfold gen_SecretKey_public_key, sk_public_key. r_auto. Qed.
  Lemma r_sk_sign sk s msg : gen_SecretKey_sign E sk s msg = Val (sk_sign O C sk s msg).
  Proof. unfold gen_SecretKey_sign, sk_sign. destruct s; r_auto. Qed.
  Lemma r_sk_proof_of_possession sk :
    gen_SecretKey_proof_of_possession E sk = Val (sk_proof_of_possession O C sk).
  Proof. unfold gen_SecretKey_proof_of_possession, sk_proof_of_possession. r_auto. Qed.
  Lemma r_sk_sign_decryption_key sk ct :
    gen_SecretKey_sign_decryption_key E sk ct = Val (sk_sign_decryption_key sk ct).
  Proof. reflexivity. Qed.
  Lemma r_sk_from_hash data : gen_SecretKey_from_hash E data = sk_from_hash O data.
  Proof. unfold gen_SecretKey_from_hash, sk_from_hash. apply bind_ret. Qed.
  Lemma r_sk_to_be_bytes sk : gen_SecretKey_to_be_bytes E sk = Val (scalar_to_be_bytes O sk).
  Proof. reflexivity. Qed.
  Lemma r_sk_to_le_bytes sk : gen_SecretKey_to_le_bytes E sk = Val (scalar_to_le_bytes O sk).
  Proof. reflexivity. Qed.
  Lemma r_sk_from_be_bytes b : gen_SecretKey_from_be_bytes E b = Val (scalar_from_be_bytes O b).
  Proof. reflexivity. Qed.
  Lemma r_sk_from_le_bytes b : gen_SecretKey_from_le_bytes E b = Val (scalar_from_le_bytes O b).
  Proof. reflexivity. Qed.
  Lemma r_sk_combine shares : gen_SecretKey_combine E shares = sk_combine O shares.
  Proof.
    unfold gen_SecretKey_combine, sk_combine. cbv zeta. rewrite map_id. cbn [eO]. destruct (combine_secret_shares O shares) as [[x|e]| |]; reflexivity.
  Qed.
  Lemma r_sk_split_with_rng sk t n seed k :
    mfst (gen_SecretKey_split_with_rng E sk t n (seed, k))
    = if Nat.ltb 255 n then Val (Err VsssError) else vsss_split_secret O sk t n seed k.
  Proof.
    unfold mfst, gen_SecretKey_split_with_rng. r_norm. destruct (Nat.ltb 255 n); [reflexivity|].
    destruct (vsss_split_secret O sk t n seed k) as [[x|e]| |]; reflexivity.
  Qed.
  Lemma r_sk_split sk t n w :
    gen_SecretKey_split E sk t n w = sk_split_entropy O ent sk t n w.
  Proof.
    unfold gen_SecretKey_split, sk_split_entropy, sk_split, gen_SecretKey_split_with_rng. r_norm.
    destruct (Nat.ltb 255 n); [reflexivity|].
    destruct (vsss_split_secret O sk t n (ent w) 0) as [[x|e]| |]; reflexivity.
  Qed.
  Lemma r_sk_new w : gen_SecretKey_new E w = sk_new O ent w.
  Proof. unfold gen_SecretKey_new, gen_SecretKey_random, sk_new. r_consts. r_auto. Qed.

  (* ---- signature.rs ---- *)
  Lemma r_sig_same_scheme a b : gen_Signature_same_scheme E a b = Val (same_scheme a b).
  Proof. destruct a as [[] ?], b as [[] ?]; reflexivity. Qed.
  Hint Rewrite r_sig_same_scheme : rfn.
  Lemma r_sig_verify sg pk msg : gen_Signature_verify E sg pk msg = Val (sig_verify O C sg pk msg).
  Proof. unfold gen_Signature_verify, sig_verify. destruct sg as [[] p]; r_auto. Qed.
  Lemma r_sig_as_raw_value sg : gen_Signature_as_raw_value E sg = Val (tg_pt sg).
  Proof. destruct sg as [[] p]; reflexivity. Qed.

  (* ---- signature_share.rs, secret_key_share.rs, public_key_share.rs ---- *)
  Lemma r_sigshare_same_scheme a b : gen_SignatureShare_same_scheme E a b = Val (share_same_scheme a b).
  Proof. destruct a as [[] ?], b as [[] ?]; reflexivity. Qed.
  Hint Rewrite r_sigshare_same_scheme : rfn.
  Lemma r_sigshare_as_raw_value s : gen_SignatureShare_as_raw_value E s = Val (ts_share s).
  Proof. destruct s as [[] p]; reflexivity. Qed.
  Hint Rewrite r_sigshare_as_raw_value : rfn.
  Lemma r_sks_public_key sks : gen_SecretKeyShare_public_key E sks = Val (sks_public_key O C sks).
  Proof. unfold gen_SecretKeyShare_public_key, sks_public_key. rewrite r_public_key_share. r_auto. Qed.
  Lemma r_sks_sign sks s msg : gen_SecretKeyShare_sign E sks s msg = Val (sks_sign O C sks s msg).
  Proof. unfold gen_SecretKeyShare_sign, sks_sign.
    destruct s; rewrite ?r_basic_partial_sign, ?r_pop_partial_sign; r_auto. Qed.
  Lemma r_pks_verify pks sg msg : gen_PublicKeyShare_verify E pks sg msg = Val (pks_verify O C pks sg msg).
  Proof. unfold gen_PublicKeyShare_verify, pks_verify. destruct sg as [[] p];
    cbn [ts_scheme ts_share]; rewrite ?r_basic_verify, ?r_aug_verify, ?r_pop_verify_sig; r_auto;
    rewrite ?r_basic_verify, ?r_aug_verify, ?r_pop_verify_sig; r_auto. Qed.
  Hint Rewrite r_pks_verify : rfn.
  Lemma r_sigshare_verify sg pks msg :
    gen_SignatureShare_verify E sg pks msg = Val (pks_verify O C pks sg msg).
  Proof. unfold gen_SignatureShare_verify. r_auto. Qed.

  (* ---- aggregate_signature.rs / multi_signature.rs: the accumulators ---- *)
  Lemma raw_match (s : @tagged K) :
    match s with mktagged Basic p => p | mktagged Aug p => p | mktagged Pop p => p end = tg_pt s.
  Proof. destruct s as [[] p]; reflexivity. Qed.

  Lemma tail_slice {A} (s0 : A) rest : rs_slice (s0 :: rest) 1 (length (s0 :: rest)) = Val rest.
  Proof.
    unfold rs_slice. cbn [length Nat.leb skipn]. rewrite Nat.leb_refl. cbn [andb].
    replace (S (length rest) - 1)%nat with (length rest) by lia. rewrite firstn_all. reflexivity.
  Qed.

  Lemma agg_acc_refines (R0 : Type) s0 body :
    (forall g s, body g s = if negb (same_scheme s s0) then Val (Ret (Err InvalidSignatureScheme))
                            else Val (Next (padd g (tg_pt s)))) ->
    forall rest g (k : pt K Gsig -> M (res R0)),
    rs_for rest g body k = match agg_loop s0 rest g with Err e => Val (Err e) | Ok g' => k g' end.
  Proof.
    intros Hb. induction rest as [|s rest IH]; intros g k; cbn [rs_for agg_loop]; [reflexivity|].
    rewrite Hb. destruct (negb (same_scheme s s0)); cbn [bind]; [reflexivity|apply IH].
  Qed.

  Lemma r_agg_try_from sigs : gen_AggregateSignature_try_from E sigs = Val (aggregate_from_signatures sigs).
  Proof.
    unfold gen_AggregateSignature_try_from, aggregate_from_signatures. r_norm.
    destruct (Nat.ltb (length sigs) 2) eqn:Hl; [reflexivity|].
    destruct sigs as [|s0 rest]; [discriminate|].
    rewrite tail_slice. cbn [bind].
    erewrite (agg_acc_refines _ s0).
    2:{ intros g s. cbn [rs_index nth_error bind]. rewrite r_sig_same_scheme. cbn [bind].
        rewrite raw_match. reflexivity. }
    destruct (agg_loop s0 rest pid) as [g|e]; [|reflexivity].
    cbn [rs_index nth_error bind]. destruct s0 as [[] p]; reflexivity.
  Qed.
  Hint Rewrite r_agg_try_from : rfn.

  Lemma r_agg_from_signatures sigs :
    gen_AggregateSignature_from_signatures E sigs = Val (aggregate_from_signatures sigs).
  Proof. unfold gen_AggregateSignature_from_signatures. r_auto. Qed.

  Lemma r_agg_verify a data : gen_AggregateSignature_verify E a data = aggregate_verify O C dbg a data.
  Proof.
    unfold gen_AggregateSignature_verify, aggregate_verify. cbv zeta.
    rewrite map_pair_id. destruct a as [[] p]; cbn [tg_scheme tg_pt];
      rewrite ?r_basic_aggregate_verify, ?r_aug_aggregate_verify, ?r_pop_aggregate_verify; apply bind_ret.
  Qed.

  Lemma multi_acc_refines (R0 : Type) s0 body :
    (forall g s, body g s = if negb (same_scheme s s0) then Val (Ret (Err InvalidSignatureScheme))
                            else match tg_scheme s with
                                 | Aug => Val (Ret (Err InvalidSignatureScheme))
                                 | _ => Val (Next (padd g (tg_pt s)))
                                 end) ->
    forall rest g (k : pt K Gsig -> M (res R0)),
    rs_for rest g body k = match multi_loop s0 rest g with Err e => Val (Err e) | Ok g' => k g' end.
  Proof.
    intros Hb. induction rest as [|s rest IH]; intros g k; cbn [rs_for multi_loop]; [reflexivity|].
    rewrite Hb. destruct (negb (same_scheme s s0)); cbn [bind]; [reflexivity|].
    destruct (tg_scheme s); cbn [bind]; [apply IH|reflexivity|apply IH].
  Qed.

  Lemma r_multi_try_from sigs : gen_MultiSignature_try_from E sigs = Val (multi_from_sigs sigs).
  Proof.
    unfold gen_MultiSignature_try_from, multi_from_sigs. r_norm.
    destruct (Nat.ltb (length sigs) 2) eqn:Hl; [reflexivity|].
    destruct sigs as [|s0 rest]; [discriminate|].
    rewrite tail_slice. cbn [bind].
    erewrite (multi_acc_refines _ s0).
    2:{ intros g s. cbn [rs_index nth_error bind]. rewrite r_sig_same_scheme. cbn [bind].
        destruct (negb (same_scheme s s0)); [reflexivity|]. destruct s as [[] p]; reflexivity. }
    destruct (multi_loop s0 rest pid) as [g|e]; [|reflexivity].
    cbn [rs_index nth_error bind]. destruct s0 as [[] p]; reflexivity.
  Qed.
  Hint Rewrite r_multi_try_from : rfn.

  Lemma r_multi_from_sigs sigs : gen_MultiSignature_from_signatures E sigs = Val (multi_from_sigs sigs).
  Proof. unfold gen_MultiSignature_from_signatures. r_auto. Qed.
  Lemma r_multi_verify m mpk msg : gen_MultiSignature_verify E m mpk msg = Val (multi_verify O C m mpk msg).
  Proof. unfold gen_MultiSignature_verify, multi_verify. destruct m as [[] p]; r_auto. Qed.
  Lemma r_multi_as_raw_value m : gen_MultiSignature_as_raw_value E m = Val (tg_pt m).
  Proof. destruct m as [[] p]; reflexivity. Qed.
  Lemma r_multi_pk_from_public_keys keys :
    gen_MultiPublicKey_from_public_keys E keys = Val (multi_pk_from_public_keys keys).
  Proof. unfold gen_MultiPublicKey_from_public_keys, multi_pk_from_public_keys. rewrite map_id. r_auto. Qed.
  Lemma r_pop_wrapper_verify p pk : gen_ProofOfPossession_verify E p pk = Val (pop_wrapper_verify O C p pk).
  Proof. unfold gen_ProofOfPossession_verify, pop_wrapper_verify. r_auto. Qed.

  (* ---- threshold reconstruction ---- *)
  Lemma allM_same (s0 : tagged_share) rest :
    rs_allM (fun s => e <- rs_index (s0 :: rest) 0 ;; r <- gen_SignatureShare_same_scheme E s e ;; Val r) rest
    = Val (forallb (fun s => share_same_scheme s s0) rest).
  Proof.
    induction rest as [|s rest IH]; cbn [rs_allM forallb]; [reflexivity|].
    cbn [rs_index nth_error bind]. rewrite r_sigshare_same_scheme. cbn [bind].
    destruct (share_same_scheme s s0); cbn [andb]; [|reflexivity].
    cbn [rs_index nth_error bind] in IH.
    etransitivity; [|exact IH]. reflexivity.
  Qed.

  Lemma r_sig_from_shares shares : gen_Signature_from_shares E shares = sig_from_shares O shares.
  Proof.
    unfold gen_Signature_from_shares, sig_from_shares.
    rewrite (mapM_ext _ ts_share) by (intros s; rewrite r_sigshare_as_raw_value; reflexivity).
    destruct shares as [|s0 rest].
    - cbn [skipn rs_allM bind negb map]. rewrite r_core_combine_signature_shares.
      unfold bind_res. destruct (core_combine_signature_shares O []) as [[x|e]| |]; reflexivity.
    - cbn [skipn]. rewrite allM_same. cbn [bind].
      destruct (negb (forallb (fun s => share_same_scheme s s0) rest)); [reflexivity|].
      cbn [bind]. rewrite r_core_combine_signature_shares. unfold bind_res.
      destruct (core_combine_signature_shares O (map ts_share (s0 :: rest))) as [[x|e]| |]; try reflexivity.
      cbn [bind rs_index nth_error]. destruct s0 as [[] p]; reflexivity.
  Qed.

  Lemma r_pk_from_shares shares : gen_PublicKey_from_shares E shares = pk_from_shares O shares.
  Proof. unfold gen_PublicKey_from_shares, pk_from_shares. cbv zeta. rewrite map_id.
    rewrite r_core_combine_public_key_shares. apply bind_ret. Qed.

  Lemma r_sk_random seed k :
    gen_SecretKey_random E (seed, k) = x <- hash_to_scalar O (rng_bytes32 O seed) KEYGEN_SALT ;; Val (x, (seed, k)).
  Proof. unfold gen_SecretKey_random. r_consts. reflexivity. Qed.
  Lemma r_sks_as_raw_value s : gen_SecretKeyShare_as_raw_value E s = Val s.
  Proof. reflexivity. Qed.
End R.
#[global] Hint Rewrite @r_sk_public_key : rfn.
#[global] Hint Rewrite @r_sk_sign : rfn.
#[global] Hint Rewrite @r_sk_proof_of_possession : rfn.
#[global] Hint Rewrite @r_sk_sign_decryption_key : rfn.
#[global] Hint Rewrite @r_sk_from_hash : rfn.
#[global] Hint Rewrite @r_sk_to_be_bytes : rfn.
#[global] Hint Rewrite @r_sk_to_le_bytes : rfn.
#[global] Hint Rewrite @r_sk_from_be_bytes : rfn.
#[global] Hint Rewrite @r_sk_from_le_bytes : rfn.
#[global] Hint Rewrite @r_sk_combine : rfn.
#[global] Hint Rewrite @r_sk_split : rfn.
#[global] Hint Rewrite @r_sk_new : rfn.
#[global] Hint Rewrite @r_sig_same_scheme : rfn.
#[global] Hint Rewrite @r_sig_verify : rfn.
#[global] Hint Rewrite @r_sig_as_raw_value : rfn.
#[global] Hint Rewrite @r_sigshare_same_scheme : rfn.
#[global] Hint Rewrite @r_sigshare_as_raw_value : rfn.
#[global] Hint Rewrite @r_sks_public_key : rfn.
#[global] Hint Rewrite @r_sks_sign : rfn.
#[global] Hint Rewrite @r_pks_verify : rfn.
#[global] Hint Rewrite @r_sigshare_verify : rfn.
#[global] Hint Rewrite @r_agg_try_from : rfn.
#[global] Hint Rewrite @r_agg_from_signatures : rfn.
#[global] Hint Rewrite @r_agg_verify : rfn.
#[global] Hint Rewrite @r_multi_try_from : rfn.
#[global] Hint Rewrite @r_multi_from_sigs : rfn.
#[global] Hint Rewrite @r_multi_verify : rfn.
#[global] Hint Rewrite @r_multi_as_raw_value : rfn.
#[global] Hint Rewrite @r_multi_pk_from_public_keys : rfn.
#[global] Hint Rewrite @r_pop_wrapper_verify : rfn.
#[global] Hint Rewrite @r_sig_from_shares : rfn.
#[global] Hint Rewrite @r_pk_from_shares : rfn.
#[global] Hint Rewrite @r_sk_random : rfn.
#[global] Hint Rewrite @r_sks_as_raw_value : rfn.
Print Assumptions r_sk_public_key.
Print Assumptions r_sk_sign.
Print Assumptions r_sk_proof_of_possession.
Print Assumptions r_sk_sign_decryption_key.
Print Assumptions r_sk_from_hash.
Print Assumptions r_sk_to_be_bytes.
Print Assumptions r_sk_to_le_bytes.
Print Assumptions r_sk_from_be_bytes.
Print Assumptions r_sk_from_le_bytes.
Print Assumptions r_sk_combine.
Print Assumptions r_sk_split_with_rng.
Print Assumptions r_sk_split.
Print Assumptions r_sk_new.
Print Assumptions r_sig_same_scheme.
Print Assumptions r_sig_verify.
Print Assumptions r_sig_as_raw_value.
Print Assumptions r_sigshare_same_scheme.
Print Assumptions r_sigshare_as_raw_value.
Print Assumptions r_sks_public_key.
Print Assumptions r_sks_sign.
Print Assumptions r_pks_verify.
Print Assumptions r_sigshare_verify.
Print Assumptions r_agg_try_from.
Print Assumptions r_agg_from_signatures.
Print Assumptions r_agg_verify.
Print Assumptions r_multi_try_from.
Print Assumptions r_multi_from_sigs.
Print Assumptions r_multi_verify.
Print Assumptions r_multi_as_raw_value.
Print Assumptions r_multi_pk_from_public_keys.
Print Assumptions r_pop_wrapper_verify.
Print Assumptions r_sig_from_shares.
Print Assumptions r_pk_from_shares.
Print Assumptions r_sk_random.
Print Assumptions r_sks_as_raw_value.
