(* Tie #1 (translator), function bodies: what rs2v generates from src/traits/time_crypt.rs equals the model's. *)
From BV Require Import Alg.Field Alg.Dlog Sem.Base Model.Oracles Model.Helpers Model.Varint Model.Core
     Model.Protocols Theory.VarintFacts Gen.Consts Gen.Funcs Refine.Prelude Refine.Tactics Refine.Frames.

Section R.
  Context {K : FieldOps} (O : Oracles K) (C : Impl) (dbg : bool) (ent : nat -> bytes) (now : N).
  Notation E := (mkEnv K O C dbg ent now).
  Notation F := (car K).

  (* ---- time_crypt.rs ---- *)
  Lemma r_tl_compute_v k a : gen_BlsTimeCrypt_compute_v E k a = tl_compute_v O dbg k a.
  Proof. unfold gen_BlsTimeCrypt_compute_v, tl_compute_v. r_auto. Qed.
  Hint Rewrite r_tl_compute_v : rfn.

  Lemma r_tl_compute_w alpha msg : gen_BlsTimeCrypt_compute_w E alpha msg = tl_compute_w O dbg alpha msg.
  Proof.
    unfold gen_BlsTimeCrypt_compute_w, tl_compute_w, rs_vec_zeros, repeatN. cbv zeta.
    rewrite repeat_length. cbn [app eO edbg]. r_norm.
    unfold all_zero. destruct (dbg && _); [reflexivity|]. apply bind_ret.
  Qed.
  Hint Rewrite r_tl_compute_w : rfn.

  Lemma r_tl_seal pk message id dst w :
    gen_BlsTimeCrypt_seal E pk message id dst w
    = if is_id pk then Val (Err InvalidInputs, w)
      else (x <- tl_seal O dbg pk message id dst (ent w) ;; Val (x, S w)).
  Proof.
    unfold gen_BlsTimeCrypt_seal, tl_seal. destruct (is_id pk); [reflexivity|].
    r_consts. r_auto_with ltac:(progress rewrite pad_loop).
  Qed.

  Lemma r_tl_unseal u v w dk is_valid :
    gen_BlsTimeCrypt_unseal E u v w dk is_valid = tl_unseal O dbg u v w dk is_valid.
  Proof.
    unfold gen_BlsTimeCrypt_unseal, tl_unseal. cbv zeta. rewrite r_tl_compute_v.
    destruct (tl_compute_v O dbg (pairing [(dk, u)]) v) as [alpha| |]; [|reflexivity|reflexivity].
    cbn [bind]. rewrite r_tl_compute_w.
    destruct (tl_compute_w O dbg alpha w) as [p| |]; [|reflexivity|reflexivity]. cbn [bind].
    set (Kf := fun message : bytes =>
      x <- hash_to_scalar O (alpha ++ sha O message) SALT_TIMELOCK ;;
      dassert dbg (negb (is_zero_s x))
        (Val (if is_id (psub (pmul (@pgen K Gpk) x) u) && is_valid && (negb (is_id dk) && negb (is_id u))
              then Some message else None))).
    transitivity (uf <- unframe true p ;;
                  match uf with UfMsg m => Kf m | UfRange => Val None | UfNoPrefix => Kf [] end).
    { exact (tl_unframe_refines p Kf (Val None) (Kf [])). }
    subst Kf. destruct (unframe true p) as [[m| |]| |]; reflexivity.
  Qed.

End R.
#[global] Hint Rewrite @r_tl_compute_v : rfn.
#[global] Hint Rewrite @r_tl_compute_w : rfn.
#[global] Hint Rewrite @r_tl_seal : rfn.
#[global] Hint Rewrite @r_tl_unseal : rfn.
Print Assumptions r_tl_compute_v.
Print Assumptions r_tl_compute_w.
Print Assumptions r_tl_seal.
Print Assumptions r_tl_unseal.
