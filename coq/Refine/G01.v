(* A headline property restated about the GENERATED code (coq/Gen/Funcs.v, produced from /repo/src by rs2v on
   every run): the property theorem of Props transported along the refinement lemmas. *)
From BV Require Import Alg.Field Alg.Dlog Sem.Base Model.Oracles Model.Helpers Model.Varint Model.Core
     Model.Protocols Model.Api Theory.CoreFacts Theory.Schemes Gen.Consts Gen.Funcs Refine.Prelude Refine.Tactics
     Refine.SigCore Refine.SigSchemes Refine.WSig Props.C01.

Section G.
  Context (K : FieldOps) (laws : FieldLaws K) (O : Oracles K) (C : Impl) (dbg : bool) (ent : nat -> bytes) (now : N).
  Notation E := (mkEnv K O C dbg ent now).

  (* C01: SecretKey::sign then Signature::verify, as translated *)
  Theorem generated_sign_then_verify (sk : car K) (s : scheme) (msg : bytes) (sg : tagged) :
    Hs K O C s (public_key sk) msg <> f0 K ->
    gen_SecretKey_sign E sk s msg = Val (Ok sg) ->
    gen_SecretKey_public_key E sk = Val (public_key sk) /\
    gen_Signature_verify E sg (public_key sk) msg = Val (Ok tt).
  Proof.
    intros Hh Hs. rewrite r_sk_sign in Hs. injection Hs as Hs.
    destruct (C01_sign_verify_complete K laws O C sk s msg sg Hh Hs) as [_ Hv].
    split; [apply r_sk_public_key|]. rewrite r_sig_verify, Hv. reflexivity.
  Qed.
  Theorem generated_sign_refuses_zero_key (s : scheme) (msg : bytes) :
    gen_SecretKey_sign E (f0 K) s msg = Val (Err SigningError).
  Proof. rewrite r_sk_sign, (C01_zero_key_refused K laws O C s msg). reflexivity. Qed.
  (* C01: the one exception - when the message hashes to the identity the honest signature is the identity and the
     translated verifier refuses it with InvalidInputs *)
  Theorem generated_degenerate_hash_rejected (sk : car K) (s : scheme) (msg : bytes) (sg : tagged) :
    Hs K O C s (public_key sk) msg = f0 K ->
    gen_SecretKey_sign E sk s msg = Val (Ok sg) ->
    gen_Signature_verify E sg (public_key sk) msg = Val (Err InvalidInputs).
  Proof.
    intros Hh. rewrite r_sk_sign, r_sig_verify. intros Hs. injection Hs as Hs.
    rewrite (C01_degenerate_hash_rejected K laws O C sk s msg sg Hh Hs). reflexivity.
  Qed.
End G.

Print Assumptions generated_sign_then_verify.
Print Assumptions generated_sign_refuses_zero_key.
Print Assumptions generated_degenerate_hash_rejected.
