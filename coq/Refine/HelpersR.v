(* Tie #1 (translator), function bodies: src/helpers.rs (byte_xor, the branch-free zero test,
   scalar_from_hkdf_bytes, the scalar byte conversions) as rs2v generates them equal the model's
   (Model/Helpers.v).  The callers in src/traits refer to the model's functions by name; these lemmas are
   what justifies that. *)
From BV Require Import Alg.Field Alg.Dlog Sem.Base Model.Oracles Model.Helpers Model.Varint Model.Core
     Model.Protocols Gen.Consts Gen.Funcs Refine.Prelude Refine.Tactics Refine.Frames.

Lemma land_fold (l : bytes) : forall a,
  N.land (fold_left N.lor l a) 255 = fold_left (fun t b => N.lor t (N.land b 255)) l (N.land a 255).
Proof.
  induction l as [|b l IH]; intros a; cbn [fold_left]; [reflexivity|].
  rewrite IH, N.land_lor_distr_l. reflexivity.
Qed.

Lemma xor_loop (a : bytes) : forall (b o : bytes),
  rs_for (combine a b) o (fun o '(x, y) => Val (Next (o ++ [N.lxor x y]))) (fun o => Val o)
  = Val (o ++ xor_zip a b).
Proof.
  induction a as [|x a IH]; intros b o; cbn [combine rs_for xor_zip].
  - rewrite app_nil_r. reflexivity.
  - destruct b as [|y b]; cbn [combine rs_for xor_zip bind].
    + rewrite app_nil_r. reflexivity.
    + rewrite IH, <- app_assoc. reflexivity.
Qed.

(* a loop whose body always produces the same state either ends after one round or never *)
Lemma const_loop {R0 S0} (st st' : S0) (cond : S0 -> bool) body (k : S0 -> M R0) fuel :
  cond st = true -> body st = Val (Next st') -> body st' = Val (Next st') ->
  rs_while_fuel (S (S fuel)) st cond body k = if cond st' then Loop else k st'.
Proof.
  intros Hc Hb Hb'. cbn [rs_while_fuel]. rewrite Hc, Hb. cbn [bind].
  destruct (cond st') eqn:Hc'; [|reflexivity].
  assert (H : forall f, rs_while_fuel f st' cond body k = Loop).
  { induction f as [|f IH]; [reflexivity|]. cbn [rs_while_fuel]. rewrite Hc', Hb'. cbn [bind]. exact IH. }
  rewrite Hb'. cbn [bind]. apply H.
Qed.

Section R.
  Context {K : FieldOps} (O : Oracles K) (C : Impl) (dbg : bool) (ent : nat -> bytes) (now : N).
  Notation E := (mkEnv K O C dbg ent now).
  Notation F := (car K).

  Lemma r_is_zero (l : bytes) : gen_IsZero_is_zero E l = Val (is_zero_bytes l).
  Proof.
    unfold gen_IsZero_is_zero, is_zero_bytes, or_bytes. cbv zeta.
    rewrite (rs_for_pure l (fun t b => N.lor t (N.land b 255))).
    rewrite land_fold. reflexivity.
  Qed.

  Lemma r_byte_xor a b : gen_free_byte_xor E a b = byte_xor dbg a b.
  Proof.
    unfold gen_free_byte_xor, byte_xor. cbn [edbg]. cbv zeta.
    change (rs_eqb (length a) (length b)) with (Nat.eqb (length a) (length b)).
    unfold dassert. destruct (dbg && _); [reflexivity|]. rewrite xor_loop. reflexivity.
  Qed.

  (* assumes: the field's equality test is reflexive; HKDF-Expand returns the requested number of bytes
     (the Rust buffer is a [u8; 48], refilled in place) *)
  Lemma r_scalar_from_hkdf_bytes (laws : FieldLaws K)
        (Hexp : forall prk info n, length (hkdf_expand O prk info n) = n) salt ikm :
    gen_free_scalar_from_hkdf_bytes E (Some salt) ikm = scalar_from_hkdf_bytes O salt ikm.
  Proof.
    unfold gen_free_scalar_from_hkdf_bytes, scalar_from_hkdf_bytes, hkdf_scalar_raw, hkdf_new, rs_while, WHILE_FUEL.
    cbn [fst snd app eO]. cbv zeta.
    set (prk := hkdf_extract O salt (ikm ++ [0])).
    set (out := hkdf_expand O prk HKDF_INFO 48).
    erewrite (const_loop (rs_vec_zeros 48, f0 K) (out, from_okm O out)).
    - cbv beta iota. reflexivity.
    - cbv beta iota. apply (feqb_refl K laws).
    - cbv beta iota zeta. unfold rs_vec_zeros, repeatN. rewrite repeat_length. reflexivity.
    - cbv beta iota zeta. subst out. rewrite Hexp. reflexivity.
  Qed.

  (* the byte conversions take [u8; N] with N = 32 at every call site *)
  Lemma r_scalar_to_le_bytes s : length (repr O s) = 32%nat ->
    gen_free_scalar_to_le_bytes E 32 s = Val (scalar_to_le_bytes O s).
  Proof.
    intros H. unfold gen_free_scalar_to_le_bytes, scalar_to_le_bytes, rs_try_array. cbn [eO]. cbv zeta.
    rewrite H. reflexivity.
  Qed.
  Lemma r_scalar_to_be_bytes s : length (repr O s) = 32%nat ->
    gen_free_scalar_to_be_bytes E 32 s = Val (scalar_to_be_bytes O s).
  Proof.
    intros H. unfold gen_free_scalar_to_be_bytes, scalar_to_be_bytes, rs_try_array. cbn [eO]. cbv zeta.
    rewrite rev_length, H. reflexivity.
  Qed.
  Lemma copy_all (input : bytes) : length input = 32%nat ->
    rs_copy_range (rs_vec_zeros 32) 0 (length (rs_vec_zeros 32)) input = Val input.
  Proof.
    intros H. unfold rs_copy_range, rs_vec_zeros, repeatN. rewrite repeat_length, H.
    cbn [Nat.leb Nat.sub Nat.eqb andb firstn app]. rewrite skipn_all2 by (rewrite repeat_length; lia).
    rewrite app_nil_r. reflexivity.
  Qed.
  Lemma r_scalar_from_le_bytes n input : length input = 32%nat ->
    gen_free_scalar_from_le_bytes E n input = Val (scalar_from_le_bytes O input).
  Proof.
    intros H. unfold gen_free_scalar_from_le_bytes, scalar_from_le_bytes. cbv zeta.
    destruct (is_zero_bytes input); [reflexivity|]. rewrite copy_all by exact H. reflexivity.
  Qed.
  Lemma r_scalar_from_be_bytes n input : length input = 32%nat ->
    gen_free_scalar_from_be_bytes E n input = Val (scalar_from_be_bytes O input).
  Proof.
    intros H. unfold gen_free_scalar_from_be_bytes, scalar_from_be_bytes. cbv zeta.
    destruct (is_zero_bytes input); [reflexivity|]. rewrite copy_all by exact H. reflexivity.
  Qed.
End R.
Print Assumptions r_is_zero.
Print Assumptions r_byte_xor.
Print Assumptions r_scalar_from_hkdf_bytes.
Print Assumptions r_scalar_to_le_bytes.
Print Assumptions r_scalar_to_be_bytes.
Print Assumptions r_scalar_from_le_bytes.
Print Assumptions r_scalar_from_be_bytes.
