(* A headline property restated about the GENERATED code (coq/Gen/Funcs.v, produced from /repo/src by rs2v on
   every run): the property theorems of Props transported along the refinement lemmas. *)
From BV Require Import Alg.Field Alg.Dlog Sem.Base Model.Oracles Model.Helpers Model.Varint Model.Core
     Model.Protocols Model.Api Theory.CoreFacts Theory.Schemes Gen.Consts Gen.Funcs Refine.Prelude Refine.Tactics
     Refine.SigCore Refine.SigSchemes Refine.WSig Props.C05.

Section G.
  Context (K : FieldOps) (laws : FieldLaws K) (O : Oracles K) (C : Impl) (dbg : bool) (ent : nat -> bytes) (now : N).
  Notation E := (mkEnv K O C dbg ent now).

  (* C05: a signature made by SecretKey::sign as translated and presented to Signature::verify as translated under
     another label (and any message) is accepted only at a collision of the hash inputs, which differ *)
  Theorem generated_cross_scheme_needs_collision (sk : car K) (s s' : scheme) (msg msg' : bytes) (sg : tagged) :
    gen_SecretKey_sign E sk s msg = Val (Ok sg) ->
    gen_Signature_verify E (mktagged s' (tg_pt sg)) (public_key sk) msg' = Val (Ok tt) ->
    Hs K O C s' (public_key sk) msg' = Hs K O C s (public_key sk) msg.
  Proof.
    rewrite r_sk_sign, r_sig_verify. intros Hs_ Hv. injection Hs_ as Hs_. injection Hv as Hv.
    exact (C05_cross_scheme_needs_collision K laws O C sk s msg sg s' msg' Hs_ Hv).
  Qed.

  (* a signature over the key's own bytes is a possession proof only at a collision between the two tags *)
  Theorem generated_signature_is_not_a_pop (sk : car K) (s : scheme) (sg : tagged) :
    gen_SecretKey_sign E sk s (enc O (public_key sk)) = Val (Ok sg) ->
    gen_ProofOfPossession_verify E (tg_pt sg) (public_key sk) = Val (Ok tt) ->
    Hpop K O C (public_key sk) = Hs K O C s (public_key sk) (enc O (public_key sk)).
  Proof.
    rewrite r_sk_sign, r_pop_wrapper_verify. intros Hs_ Hv. injection Hs_ as Hs_. injection Hv as Hv.
    exact (C05_signature_is_not_a_pop K laws O C sk s sg Hs_ Hv).
  Qed.

  (* and a possession proof is a signature over those bytes only at the same collision *)
  Theorem generated_pop_is_not_a_signature (sk : car K) (p : pt K Gsig) (s : scheme) :
    gen_SecretKey_proof_of_possession E sk = Val (Ok p) ->
    gen_Signature_verify E (mktagged s p) (public_key sk) (enc O (public_key sk)) = Val (Ok tt) ->
    Hs K O C s (public_key sk) (enc O (public_key sk)) = Hpop K O C (public_key sk).
  Proof.
    rewrite r_sk_proof_of_possession, r_sig_verify. intros Hp Hv. injection Hp as Hp. injection Hv as Hv.
    exact (C05_pop_is_not_a_signature K laws O C sk p s Hp Hv).
  Qed.
End G.

Print Assumptions generated_cross_scheme_needs_collision.
Print Assumptions generated_signature_is_not_a_pop.
Print Assumptions generated_pop_is_not_a_signature.
