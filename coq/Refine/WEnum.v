(* Tie #1 (translator), function bodies: SecretKeyEnum (src/secret_key.rs) and the helper constructors of
   BlsSignature<T> (src/impls.rs) as rs2v generates them equal the model's (Model/Codec.v, Model/Api.v). *)
From BV Require Import Alg.Field Alg.Dlog Sem.Base Model.Oracles Model.Helpers Model.Varint Model.Core
     Model.Protocols Model.Api Model.Codec Gen.Consts Gen.Funcs Refine.Prelude Refine.PreludeCodec Refine.Tactics
     Refine.Frames Refine.HelpersR Refine.SigCore Refine.SigSchemes Refine.WSig Refine.WPoK Refine.WCodec.

Section R.
  Context {K : FieldOps} (O : Oracles K) (C : Impl) (dbg : bool) (ent : nat -> bytes) (now : N).
  Notation E := (mkEnv K O C dbg ent now).
  Notation F := (car K).

  (* ---- SecretKeyEnum ---- *)
  Lemma r_skenum_to_vec c s : gen_SecretKeyEnum_to_vec_bytes E (c, s) = Val (sk_enum_to_bytes O c s).
  Proof. unfold gen_SecretKeyEnum_to_vec_bytes, sk_enum_to_bytes. destruct c; rewrite r_sk_to_vec; reflexivity. Qed.
  Lemma r_skenum_to_be_bytes c s : gen_SecretKeyEnum_to_be_bytes E (c, s) = Val (sk_enum_to_bytes O c s).
  Proof. unfold gen_SecretKeyEnum_to_be_bytes, sk_enum_to_bytes. destruct c; rewrite r_sk_to_be_bytes; reflexivity. Qed.
  Lemma r_skenum_to_le_bytes c s : gen_SecretKeyEnum_to_le_bytes E (c, s) = Val (sk_enum_to_le_bytes O c s).
  Proof. unfold gen_SecretKeyEnum_to_le_bytes, sk_enum_to_le_bytes. destruct c; rewrite r_sk_to_le_bytes; reflexivity. Qed.

  Lemma r_skenum_try_from b : gen_SecretKeyEnum_try_from_bytes E b = Val (sk_enum_try_from O b).
  Proof.
    unfold gen_SecretKeyEnum_try_from_bytes, sk_enum_try_from, rs_split_first, rs_ok_or.
    destruct b as [|tag rest]; [reflexivity|]. cbv zeta.
    destruct (curve_of_u8 tag) as [[]|]; try reflexivity;
      rewrite r_sk_try_from; cbn [bind]; destruct (sk_try_from O rest); reflexivity.
  Qed.

  Lemma tail_slice_bytes (t : N) rest : rs_slice (t :: rest) 1 (length (t :: rest)) = Val rest.
  Proof.
    unfold rs_slice. cbn [length Nat.leb skipn]. rewrite Nat.leb_refl. cbn [andb].
    replace (S (length rest) - 1)%nat with (length rest) by lia. rewrite firstn_all. reflexivity.
  Qed.

  Lemma r_skenum_from_be_bytes b : gen_SecretKeyEnum_from_be_bytes E b = Val (sk_enum_from_be_bytes O b).
  Proof.
    unfold gen_SecretKeyEnum_from_be_bytes, sk_enum_from_be_bytes, rs_ok_or, rs_try_array, SECRET_KEY_BYTES.
    destruct b as [|tag rest]; [reflexivity|]. cbn [length Nat.eqb rs_index nth_error bind]. cbv zeta.
    change (rs_num 1%N) with 1%nat.
    destruct (curve_of_u8 tag) as [c|]; [|reflexivity].
    change (S (length rest)) with (length (tag :: rest)). rewrite tail_slice_bytes. cbn [bind].
    destruct (Nat.eqb (length rest) 32); cbn [negb]; [|reflexivity].
    destruct c; rewrite r_sk_from_be_bytes; cbn [bind]; cbv zeta;
      destruct (scalar_from_be_bytes O rest); reflexivity.
  Qed.
  Lemma r_skenum_from_le_bytes b : gen_SecretKeyEnum_from_le_bytes E b = Val (sk_enum_from_le_bytes O b).
  Proof.
    unfold gen_SecretKeyEnum_from_le_bytes, sk_enum_from_le_bytes, rs_ok_or, rs_try_array, SECRET_KEY_BYTES.
    destruct b as [|tag rest]; [reflexivity|]. cbn [length Nat.eqb rs_index nth_error bind]. cbv zeta.
    change (rs_num 1%N) with 1%nat.
    destruct (curve_of_u8 tag) as [c|]; [|reflexivity].
    change (S (length rest)) with (length (tag :: rest)). rewrite tail_slice_bytes. cbn [bind].
    destruct (Nat.eqb (length rest) 32); cbn [negb]; [|reflexivity].
    destruct c; rewrite r_sk_from_le_bytes; cbn [bind]; cbv zeta;
      destruct (scalar_from_le_bytes O rest); reflexivity.
  Qed.

  Lemma r_skenum_new c w : gen_SecretKeyEnum_new E c w = '(s, w') <- sk_new O ent w ;; Val ((c, s), w').
  Proof. unfold gen_SecretKeyEnum_new. destruct c; rewrite r_sk_new;
    destruct (sk_new O ent w) as [[s w']| |]; reflexivity. Qed.
  Lemma r_skenum_from_hash c data : gen_SecretKeyEnum_from_hash E c data = s <- sk_from_hash O data ;; Val (c, s).
  Proof. unfold gen_SecretKeyEnum_from_hash. destruct c; rewrite r_sk_from_hash; reflexivity. Qed.
  Lemma r_skenum_random c seed k :
    gen_SecretKeyEnum_random E c (seed, k)
    = x <- hash_to_scalar O (rng_bytes32 O seed) KEYGEN_SALT ;; Val ((c, x), (seed, k)).
  Proof. unfold gen_SecretKeyEnum_random. destruct c; rewrite r_sk_random;
    destruct (hash_to_scalar O (rng_bytes32 O seed) KEYGEN_SALT); reflexivity. Qed.

  (* ---- BlsSignature<T> (src/impls.rs) ---- *)
  Lemma r_bls_new_secret_key w : gen_BlsSignature_new_secret_key E w = sk_new O ent w.
  Proof. unfold gen_BlsSignature_new_secret_key, sk_new. cbn [world_rng eent]. rewrite r_sk_random.
    destruct (hash_to_scalar O (rng_bytes32 O (ent w)) KEYGEN_SALT); reflexivity. Qed.
  Lemma r_bls_secret_key_from_hash data : gen_BlsSignature_secret_key_from_hash E data = sk_from_hash O data.
  Proof. unfold gen_BlsSignature_secret_key_from_hash, sk_from_hash. r_consts. apply bind_ret. Qed.
  Lemma r_bls_random_secret_key seed k :
    gen_BlsSignature_random_secret_key E (seed, k)
    = x <- hash_to_scalar O (rng_bytes32 O seed) KEYGEN_SALT ;; Val (x, (seed, k)).
  Proof. unfold gen_BlsSignature_random_secret_key. r_consts. reflexivity. Qed.
  Lemma r_bls_new_proof_challenge w : gen_BlsSignature_new_proof_challenge E w = challenge_new O ent w.
  Proof. unfold gen_BlsSignature_new_proof_challenge. rewrite r_challenge_new.
    destruct (challenge_new O ent w) as [[x w']| |]; reflexivity. Qed.
  Lemma r_bls_proof_challenge_from_hash data :
    gen_BlsSignature_proof_challenge_from_hash E data = sk_from_hash O data.
  Proof. unfold gen_BlsSignature_proof_challenge_from_hash. rewrite r_challenge_from_hash. apply bind_ret. Qed.
  Lemma r_bls_random_proof_challenge seed k :
    gen_BlsSignature_random_proof_challenge E (seed, k)
    = x <- hash_to_scalar O (rng_bytes32 O seed) KEYGEN_SALT ;; Val (x, (seed, k)).
  Proof. unfold gen_BlsSignature_random_proof_challenge. rewrite r_challenge_random.
    destruct (hash_to_scalar O (rng_bytes32 O seed) KEYGEN_SALT); reflexivity. Qed.
End R.
Print Assumptions r_skenum_to_vec.
Print Assumptions r_skenum_to_be_bytes.
Print Assumptions r_skenum_to_le_bytes.
Print Assumptions r_skenum_try_from.
Print Assumptions r_skenum_from_be_bytes.
Print Assumptions r_skenum_from_le_bytes.
Print Assumptions r_skenum_new.
Print Assumptions r_skenum_from_hash.
Print Assumptions r_skenum_random.
Print Assumptions r_bls_new_secret_key.
Print Assumptions r_bls_secret_key_from_hash.
Print Assumptions r_bls_random_secret_key.
Print Assumptions r_bls_new_proof_challenge.
Print Assumptions r_bls_proof_challenge_from_hash.
Print Assumptions r_bls_random_proof_challenge.
