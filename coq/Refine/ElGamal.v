(* Tie #1 (translator), function bodies: what rs2v generates from src/traits/elgamal.rs equals the model's. *)
From BV Require Import Alg.Field Alg.Dlog Sem.Base Model.Oracles Model.Helpers Model.Varint Model.Core
     Model.Protocols Theory.VarintFacts Gen.Consts Gen.Funcs Refine.Prelude Refine.Tactics Refine.Frames.

Section R.
  Context {K : FieldOps} (O : Oracles K) (C : Impl) (dbg : bool) (ent : nat -> bytes) (now : N).
  Notation E := (mkEnv K O C dbg ent now).
  Notation F := (car K).

  (* ---- elgamal.rs ---- *)
  Lemma r_message_generator : gen_BlsElGamal_message_generator E = Val (message_generator O C).
  Proof. reflexivity. Qed.
  Hint Rewrite r_message_generator : rfn.


  Lemma r_eg_seal_scalar pk m g b seed k :
    mfst (gen_BlsElGamal_seal_scalar E pk m g b (seed, k)) = eg_seal_scalar O C dbg pk m g b seed k.
  Proof. unfold mfst, gen_BlsElGamal_seal_scalar, eg_seal_scalar. destruct g, b; r_auto. Qed.

  (* with a caller-supplied blinder the generator is not advanced *)
  Lemma r_eg_seal_scalar_some pk m g b r :
    gen_BlsElGamal_seal_scalar E pk m g (Some b) r
    = x <- eg_seal_scalar O C dbg pk m g (Some b) (fst r) (snd r) ;; Val (x, r).
  Proof. unfold gen_BlsElGamal_seal_scalar, eg_seal_scalar. destruct g; r_auto. Qed.
  Hint Rewrite r_eg_seal_scalar_some : rfn.

  Lemma r_eg_seal_point pk m b seed k :
    mfst (gen_BlsElGamal_seal_point E pk m b (seed, k)) = eg_seal_point O dbg pk m b seed k.
  Proof. unfold mfst, gen_BlsElGamal_seal_point, eg_seal_point. destruct b; r_auto. Qed.

  Lemma r_eg_decrypt sk c1 c2 : gen_BlsElGamal_decrypt E sk c1 c2 = Val (eg_decrypt sk c1 c2).
  Proof. reflexivity. Qed.
  Hint Rewrite r_eg_decrypt : rfn.

  Lemma r_eg_verify_proof pk g c1 c2 mp bp ch :
    gen_BlsElGamal_verify_proof E pk g c1 c2 mp bp ch = Val (eg_verify_proof O C pk g c1 c2 mp bp ch).
  Proof. unfold gen_BlsElGamal_verify_proof, eg_verify_proof, eg_transcript. r_consts. destruct g; r_auto. Qed.
  Hint Rewrite r_eg_verify_proof : rfn.

  Lemma r_eg_verify_and_decrypt sk g c1 c2 mp bp ch :
    gen_BlsElGamal_verify_and_decrypt E sk g c1 c2 mp bp ch
    = Val (eg_verify_and_decrypt O C sk g c1 c2 mp bp ch).
  Proof. unfold gen_BlsElGamal_verify_and_decrypt, eg_verify_and_decrypt. r_auto. Qed.

  Lemma r_eg_seal_scalar_with_proof pk m g b seed :
    mfst (gen_BlsElGamal_seal_scalar_with_proof E pk m g b (seed, 0%nat))
    = eg_seal_scalar_with_proof O C dbg pk m g b seed.
  Proof.
    unfold mfst, gen_BlsElGamal_seal_scalar_with_proof, eg_seal_scalar_with_proof, eg_transcript.
    r_consts. destruct g, b; r_auto.
  Qed.
End R.
#[global] Hint Rewrite @r_message_generator : rfn.
#[global] Hint Rewrite @r_eg_seal_scalar_some : rfn.
#[global] Hint Rewrite @r_eg_decrypt : rfn.
#[global] Hint Rewrite @r_eg_verify_proof : rfn.
#[global] Hint Rewrite @r_eg_verify_and_decrypt : rfn.
Print Assumptions r_message_generator.
Print Assumptions r_eg_seal_scalar.
Print Assumptions r_eg_seal_scalar_some.
Print Assumptions r_eg_seal_point.
Print Assumptions r_eg_decrypt.
Print Assumptions r_eg_verify_proof.
Print Assumptions r_eg_verify_and_decrypt.
Print Assumptions r_eg_seal_scalar_with_proof.
