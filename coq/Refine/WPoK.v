(* Tie #1 (translator), function bodies of the wrapper types: proof_commitment.rs, proof_of_knowledge.rs;
   what rs2v generates equals the model (Model/Api.v). *)
From BV Require Import Alg.Field Alg.Dlog Sem.Base Model.Oracles Model.Helpers Model.Varint Model.Core
     Model.Protocols Model.Api Theory.VarintFacts Gen.Consts Gen.Funcs Refine.Prelude Refine.Tactics Refine.Frames
     Refine.PoK.

Section R.
  Context {K : FieldOps} (O : Oracles K) (C : Impl) (dbg : bool) (ent : nat -> bytes) (now : N).
  Notation E := (mkEnv K O C dbg ent now).
  Notation F := (car K).

  (* ---- proofs of knowledge ---- *)
  Lemma r_pc_generate msg sg w : gen_ProofCommitment_generate E msg sg w = pc_generate O C ent msg sg w.
  Proof.
    unfold gen_ProofCommitment_generate, pc_generate, dst_of.
    destruct sg as [[] p]; cbn [tg_scheme eC]; rewrite r_generate_commitment;
      (destruct (generate_commitment O ent msg _ w) as [[[[u x]|e] w']| |]; reflexivity).
  Qed.
  Lemma r_pc_finalize c x y sg : gen_ProofCommitment_finalize E c x y sg = Val (pc_finalize c x y sg).
  Proof.
    unfold gen_ProofCommitment_finalize, pc_finalize.
    destruct c as [[] u], sg as [[] s]; cbn [tg_scheme tg_pt scheme_eqb]; try reflexivity;
      rewrite r_generate_proof; cbn [bind]; (destruct (generate_proof u x y s) as [[a b]|e]; reflexivity).
  Qed.
  Lemma r_pok_wrapper_verify p pk msg y :
    gen_ProofOfKnowledge_verify E p pk msg y = pok_wrapper_verify O C dbg p pk msg y.
  Proof.
    unfold gen_ProofOfKnowledge_verify, pok_wrapper_verify, dst_of.
    destruct p as [[] u v]; cbn [pok_scheme pok_u pok_v eC]; rewrite r_pok_verify; apply bind_ret.
  Qed.
  Lemma r_pokts_generate msg sg w :
    gen_ProofOfKnowledgeTimestamp_generate E msg sg w = pokts_generate O C dbg ent msg sg now w.
  Proof.
    unfold gen_ProofOfKnowledgeTimestamp_generate, pokts_generate, dst_of.
    destruct sg as [[] p]; cbn [tg_scheme tg_pt eC]; rewrite r_generate_timestamp_proof;
      (destruct (generate_timestamp_proof O dbg ent msg _ p now w) as [[[[[u v] t]|e] w']| |]; reflexivity).
  Qed.
  Lemma r_pokts_verify p pk msg tmo :
    gen_ProofOfKnowledgeTimestamp_verify E p pk msg tmo = pokts_verify O C dbg p pk msg tmo now.
  Proof.
    unfold gen_ProofOfKnowledgeTimestamp_verify, pokts_verify, dst_of.
    destruct p as [[[] u v] t]; cbn [pts_proof pts_timestamp pok_scheme pok_u pok_v eC];
      rewrite r_verify_timestamp_proof; apply bind_ret.
  Qed.
  Lemma r_challenge_new w : gen_ProofCommitmentChallenge_new E w = challenge_new O ent w.
  Proof. unfold gen_ProofCommitmentChallenge_new, gen_ProofCommitmentChallenge_random, challenge_new, sk_new.
    r_consts. r_auto. Qed.
  Lemma r_challenge_from_hash data : gen_ProofCommitmentChallenge_from_hash E data = sk_from_hash O data.
  Proof. unfold gen_ProofCommitmentChallenge_from_hash, sk_from_hash. apply bind_ret. Qed.
  Lemma r_scalar_wrappers_bytes x b :
    gen_ProofCommitmentSecret_to_be_bytes E x = Val (scalar_to_be_bytes O x) /\
    gen_ProofCommitmentSecret_to_le_bytes E x = Val (scalar_to_le_bytes O x) /\
    gen_ProofCommitmentSecret_from_be_bytes E b = Val (scalar_from_be_bytes O b) /\
    gen_ProofCommitmentSecret_from_le_bytes E b = Val (scalar_from_le_bytes O b) /\
    gen_ProofCommitmentChallenge_to_be_bytes E x = Val (scalar_to_be_bytes O x) /\
    gen_ProofCommitmentChallenge_to_le_bytes E x = Val (scalar_to_le_bytes O x) /\
    gen_ProofCommitmentChallenge_from_be_bytes E b = Val (scalar_from_be_bytes O b) /\
    gen_ProofCommitmentChallenge_from_le_bytes E b = Val (scalar_from_le_bytes O b).
  Proof. repeat split; reflexivity. Qed.

  Lemma r_challenge_random seed k :
    gen_ProofCommitmentChallenge_random E (seed, k)
    = x <- hash_to_scalar O (rng_bytes32 O seed) KEYGEN_SALT ;; Val (x, (seed, k)).
  Proof. unfold gen_ProofCommitmentChallenge_random. r_consts. reflexivity. Qed.
End R.
#[global] Hint Rewrite @r_pc_generate : rfn.
#[global] Hint Rewrite @r_pc_finalize : rfn.
#[global] Hint Rewrite @r_pok_wrapper_verify : rfn.
#[global] Hint Rewrite @r_pokts_generate : rfn.
#[global] Hint Rewrite @r_pokts_verify : rfn.
#[global] Hint Rewrite @r_challenge_new : rfn.
#[global] Hint Rewrite @r_challenge_from_hash : rfn.
#[global] Hint Rewrite @r_scalar_wrappers_bytes : rfn.
#[global] Hint Rewrite @r_challenge_random : rfn.
Print Assumptions r_pc_generate.
Print Assumptions r_pc_finalize.
Print Assumptions r_pok_wrapper_verify.
Print Assumptions r_pokts_generate.
Print Assumptions r_pokts_verify.
Print Assumptions r_challenge_new.
Print Assumptions r_challenge_from_hash.
Print Assumptions r_scalar_wrappers_bytes.
Print Assumptions r_challenge_random.
