(* Tie #1 (translator), function bodies: what rs2v generates from src/traits/sig_proof.rs equals the model's. *)
From BV Require Import Alg.Field Alg.Dlog Sem.Base Model.Oracles Model.Helpers Model.Varint Model.Core
     Model.Protocols Theory.VarintFacts Gen.Consts Gen.Funcs Refine.Prelude Refine.Tactics Refine.Frames.

Section R.
  Context {K : FieldOps} (O : Oracles K) (C : Impl) (dbg : bool) (ent : nat -> bytes) (now : N).
  Notation E := (mkEnv K O C dbg ent now).
  Notation F := (car K).

  (* ---- sig_proof.rs ---- *)
  Lemma r_generate_commitment msg dst w :
    gen_BlsSignatureProof_generate_commitment E msg dst w = generate_commitment O ent msg dst w.
  Proof.
    unfold gen_BlsSignatureProof_generate_commitment, generate_commitment.
    cbv beta delta [eO eent]; cbn [eO eent].
    erewrite (first_draw_refines) by (intros; reflexivity).
    destruct (draw_nonzero_scalar O ent RETRY_FUEL w) as [[x w']| |]; reflexivity.
  Qed.

  Lemma r_compute_y u t : gen_BlsSignatureProof_compute_y E u t = compute_y O u t.
  Proof.
    unfold gen_BlsSignatureProof_compute_y, compute_y. cbv zeta.
    change (rs_add (rs_num 8%N) (length (enc (eO E) u))) with (8 + length (enc O u))%nat.
    rewrite (copy_two (enc O u) t). apply bind_ret.
  Qed.
  Hint Rewrite r_compute_y : rfn.

  Lemma r_generate_timestamp_based_y u :
    gen_BlsSignatureProof_generate_timestamp_based_y E u = generate_timestamp_based_y O u now.
  Proof. unfold gen_BlsSignatureProof_generate_timestamp_based_y, generate_timestamp_based_y. r_auto. Qed.
  Hint Rewrite r_generate_timestamp_based_y : rfn.

  Lemma r_generate_proof c x y sig :
    gen_BlsSignatureProof_generate_proof E c x y sig = Val (generate_proof c x y sig).
  Proof. unfold gen_BlsSignatureProof_generate_proof, generate_proof. r_auto. Qed.

  Lemma r_pok_verify c p pk y msg dst :
    gen_BlsSignatureProof_verify E c p pk y msg dst = pok_verify O dbg c p pk y msg dst.
  Proof. unfold gen_BlsSignatureProof_verify, pok_verify. r_auto. Qed.
  Hint Rewrite r_pok_verify : rfn.

  Lemma r_generate_timestamp_proof msg dst sig w :
    gen_BlsSignatureProof_generate_timestamp_proof E msg dst sig w
    = generate_timestamp_proof O dbg ent msg dst sig now w.
  Proof.
    unfold gen_BlsSignatureProof_generate_timestamp_proof, generate_timestamp_proof.
    destruct (is_id sig); [reflexivity|].
    cbv beta delta [eO eent]; cbn [eO eent].
    erewrite first_draw_refines by (intros; reflexivity).
    destruct (draw_nonzero_scalar O ent RETRY_FUEL w) as [[x w']| |]; [|reflexivity|reflexivity].
    r_auto.
  Qed.

  Lemma r_verify_timestamp_proof c p pk t tmo msg dst :
    gen_BlsSignatureProof_verify_timestamp_proof E c p pk t tmo msg dst
    = verify_timestamp_proof O dbg c p pk t tmo msg dst now.
  Proof.
    unfold gen_BlsSignatureProof_verify_timestamp_proof, verify_timestamp_proof.
    destruct tmo as [tm|]; cbv zeta; cbn [enow].
    - destruct (elapsed_ms now t) as [e|]; [|reflexivity].
      change (rs_leb e tm) with (N.leb e tm). rewrite (N.ltb_antisym e tm).
      destruct (N.leb e tm); cbn [negb]; [|reflexivity]. r_auto.
    - r_auto.
  Qed.

End R.
#[global] Hint Rewrite @r_compute_y : rfn.
#[global] Hint Rewrite @r_generate_timestamp_based_y : rfn.
#[global] Hint Rewrite @r_pok_verify : rfn.
#[global] Hint Rewrite @r_generate_commitment : rfn.
#[global] Hint Rewrite @r_generate_proof : rfn.
#[global] Hint Rewrite @r_generate_timestamp_proof : rfn.
#[global] Hint Rewrite @r_verify_timestamp_proof : rfn.
Print Assumptions r_generate_commitment.
Print Assumptions r_compute_y.
Print Assumptions r_generate_timestamp_based_y.
Print Assumptions r_generate_proof.
Print Assumptions r_pok_verify.
Print Assumptions r_generate_timestamp_proof.
Print Assumptions r_verify_timestamp_proof.
