(* A headline property restated about the GENERATED code (coq/Gen/Funcs.v, produced from /repo/src by rs2v on
   every run): the consuming entry points as translated return (neither Panic nor Loop in the outcome monad) on
   every input - the totality theorems of Props/C17 transported along the refinement lemmas. *)
From BV Require Import Alg.Field Alg.Dlog Sem.Base Model.Oracles Model.Helpers Model.Varint Model.Core
     Model.Protocols Model.Api Model.Codec Theory.CoreFacts Theory.Schemes Theory.Aggregate Theory.SignCrypt Theory.TimeLock
     Theory.Total Gen.Consts Gen.Funcs Refine.Prelude Refine.Tactics
     Refine.WSig Refine.WEnc Refine.WEnum Props.C17.
From Coq Require Import NArith List.
Import ListNotations.

Section G.
  Context (K : FieldOps) (laws : FieldLaws K) (O : Oracles K) (C : Impl) (dbg : bool) (ent : nat -> bytes) (now : N).
  Context (OL : OracleLaws K O (SIG_LEN C) (PK_LEN C)).
  Notation E := (mkEnv K O C dbg ent now).

  (* Signature::from_shares, every list of shares, the empty one included *)
  Theorem generated_signature_from_shares_returns (shares : list tagged_share) :
    returns (gen_Signature_from_shares E shares).
  Proof. rewrite r_sig_from_shares. exact (C17_signature_from_shares_returns K laws O shares). Qed.

  (* AggregateSignature::verify, every list of (key, message) pairs *)
  Theorem generated_aggregate_verify_returns (a : tagged) (data : list (pt K Gpk * bytes)) :
    (dbg = true -> hashes_nonzero K O (eff_data K O (tg_scheme a) data) (dst_of C (tg_scheme a))) ->
    returns (gen_AggregateSignature_verify E a data).
  Proof. intros H. rewrite r_agg_verify. exact (C17_aggregate_verify_returns K laws O C dbg a data H). Qed.

  (* SignCryptCiphertext::decrypt, every ciphertext (attacker-sized payload included) and key *)
  Theorem generated_signcrypt_decrypt_returns (ct : sc_ct) (sk : car K) :
    keystream_ok K O dbg ->
    (dbg = true -> Hw K O (sc_u ct) (sc_v ct) (dst_of C (sc_scheme ct)) <> f0 K) ->
    returns (gen_SignCryptCiphertext_decrypt E ct sk).
  Proof.
    intros H1 H2. rewrite r_scct_decrypt. exact (C17_signcrypt_decrypt_returns K laws O C OL dbg ct sk H1 H2).
  Qed.

  (* SignCryptCiphertext::is_valid *)
  Theorem generated_signcrypt_is_valid_returns (ct : sc_ct) :
    (dbg = true -> Hw K O (sc_u ct) (sc_v ct) (dst_of C (sc_scheme ct)) <> f0 K) ->
    returns (gen_SignCryptCiphertext_is_valid E ct).
  Proof. intros H. rewrite r_scct_is_valid. exact (C17_signcrypt_is_valid_returns K laws O C dbg ct H). Qed.

  (* SignDecryptionShare::verify *)
  Theorem generated_decryption_share_verify_returns (sh pks : share) (ct : sc_ct) :
    (dbg = true -> Hw K O (sc_u ct) (sc_v ct) (dst_of C (sc_scheme ct)) <> f0 K) ->
    returns (gen_SignDecryptionShare_verify E sh pks ct).
  Proof. intros H. rewrite r_sds_verify. exact (C17_decryption_share_verify_returns K laws O C dbg sh pks ct H). Qed.

  (* TimeCryptCiphertext::decrypt *)
  Theorem generated_time_lock_decrypt_returns (ct : tl_ct) (sg : tagged) :
    length (tl_v ct) = 32%nat -> keystream_ok K O dbg -> (forall a m : bytes, r_tl K O a m <> f0 K) ->
    returns (gen_TimeCryptCiphertext_decrypt E ct sg).
  Proof.
    intros H1 H2 H3. rewrite r_tlct_decrypt. exact (C17_time_lock_decrypt_returns K laws O C OL dbg ct sg H1 H2 H3).
  Qed.

  (* SecretKeyEnum::from_be_bytes of the empty slice is none, not an index panic *)
  Theorem generated_secret_key_enum_empty :
    gen_SecretKeyEnum_from_be_bytes E [] = Val None.
  Proof. rewrite r_skenum_from_be_bytes, (C17_secret_key_enum_empty K O). reflexivity. Qed.
End G.

Print Assumptions generated_signature_from_shares_returns.
Print Assumptions generated_aggregate_verify_returns.
Print Assumptions generated_signcrypt_decrypt_returns.
Print Assumptions generated_signcrypt_is_valid_returns.
Print Assumptions generated_decryption_share_verify_returns.
Print Assumptions generated_time_lock_decrypt_returns.
Print Assumptions generated_secret_key_enum_empty.
