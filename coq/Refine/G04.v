(* Headline properties restated about the GENERATED code: identity points and the zero key (C04). *)
From BV Require Import Alg.Field Alg.Dlog Sem.Base Model.Oracles Model.Helpers Model.Varint Model.Core
     Model.Protocols Model.Api Theory.CoreFacts Theory.Schemes Theory.TimeLock Theory.Guards Theory.Aggregate
     Gen.Consts Gen.Funcs Refine.Prelude Refine.Tactics Refine.SigCore Refine.SigSchemes Refine.WSig
     Refine.TimeLock Props.C04.

Section G.
  Context (K : FieldOps) (laws : FieldLaws K) (O : Oracles K) (C : Impl) (dbg : bool) (ent : nat -> bytes) (now : N).
  Notation E := (mkEnv K O C dbg ent now).

  (* Signature::verify as translated never accepts an identity signature or an identity public key *)
  Theorem generated_verify_rejects_identity (sg : tagged) (pk : pt K Gpk) (msg : bytes) :
    dl (tg_pt sg) = f0 K \/ dl pk = f0 K -> gen_Signature_verify E sg pk msg <> Val (Ok tt).
  Proof.
    intros H Hv. rewrite r_sig_verify in Hv. injection Hv as Hv.
    exact (C04_signature_verify K laws O C sg pk msg H Hv).
  Qed.

  (* BlsTimeCrypt::unseal as translated opens nothing for an identity signature, an identity U or a cleared flag *)
  Theorem generated_time_lock_gating (OL : OracleLaws K O (SIG_LEN C) (PK_LEN C))
          (u : pt K Gpk) (v w : bytes) (sig : pt K Gsig) (valid : bool) (r : option bytes) :
    length v = 32%nat -> valid = false \/ dl sig = f0 K \/ dl u = f0 K ->
    gen_BlsTimeCrypt_unseal E u v w sig valid = Val r -> r = None.
  Proof. intros Hl Hc Hu. rewrite r_tl_unseal in Hu. exact (C04_time_lock_open K laws O C OL dbg u v w sig valid r Hl Hc Hu). Qed.
  (* C04: identity multi-signature or identity accumulated key never verifies in the translated MultiSignature::verify *)
  Theorem generated_multi_verify_rejects_identity (m : tagged) (mpk : pt K Gpk) (msg : bytes) :
    dl (tg_pt m) = f0 K \/ dl mpk = f0 K -> gen_MultiSignature_verify E m mpk msg <> Val (Ok tt).
  Proof.
    intros H. rewrite r_multi_verify. intros Hv. injection Hv as Hv.
    exact (C04_multisig_verify K laws O C m mpk msg H Hv).
  Qed.

  (* C04: identity proof or identity key never verifies in the translated ProofOfPossession::verify *)
  Theorem generated_pop_verify_rejects_identity (p : pt K Gsig) (pk : pt K Gpk) :
    dl p = f0 K \/ dl pk = f0 K -> gen_ProofOfPossession_verify E p pk <> Val (Ok tt).
  Proof.
    intros H. rewrite r_pop_wrapper_verify. intros Hv. injection Hv as Hv.
    exact (C04_pop_verify K laws O C p pk H Hv).
  Qed.

  (* C04: the translated AggregateSignature::verify accepts only a non-identity aggregate over non-identity keys *)
  Theorem generated_aggregate_verify_rejects_identity (a : tagged) (data : list (pt K Gpk * bytes)) :
    (dbg = true -> hashes_nonzero K O (eff_data K O (tg_scheme a) data) (dst_of C (tg_scheme a))) ->
    gen_AggregateSignature_verify E a data = Val (Ok tt) -> dl (tg_pt a) <> f0 K /\ no_id_pk K data.
  Proof.
    intros H. rewrite r_agg_verify. intros Hv.
    apply (C04_aggregate_verify K laws O C dbg a data H) in Hv. destruct Hv as (_ & Ha & Hk & _). split; assumption.
  Qed.
  (* C04: an identity key share or identity signature share never verifies in the translated PublicKeyShare::verify
     and SignatureShare::verify *)
  Theorem generated_share_verify_rejects_identity (pks : share) (sg : tagged_share) (msg : bytes) :
    dec_pk O (sval pks) = Some (f0 K) \/ dec_sig O (sval (ts_share sg)) = Some (f0 K) ->
    gen_PublicKeyShare_verify E pks sg msg <> Val (Ok tt) /\ gen_SignatureShare_verify E sg pks msg <> Val (Ok tt).
  Proof.
    intros H. rewrite r_pks_verify, r_sigshare_verify.
    split; intros Hv; injection Hv as Hv; exact (C04_share_verify K laws O C pks sg msg H Hv).
  Qed.
End G.

Print Assumptions generated_verify_rejects_identity.
Print Assumptions generated_time_lock_gating.
Print Assumptions generated_multi_verify_rejects_identity.
Print Assumptions generated_pop_verify_rejects_identity.
Print Assumptions generated_aggregate_verify_rejects_identity.
Print Assumptions generated_share_verify_rejects_identity.
