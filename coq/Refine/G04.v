(* Headline properties restated about the GENERATED code: identity points and the zero key (C04). *)
From BV Require Import Alg.Field Alg.Dlog Sem.Base Model.Oracles Model.Helpers Model.Varint Model.Core
     Model.Protocols Model.Api Theory.CoreFacts Theory.Schemes Theory.TimeLock Theory.Guards
     Gen.Consts Gen.Funcs Refine.Prelude Refine.Tactics Refine.SigCore Refine.SigSchemes Refine.WSig
     Refine.TimeLock Props.C04.

Section G.
  Context (K : FieldOps) (laws : FieldLaws K) (O : Oracles K) (C : Impl) (dbg : bool) (ent : nat -> bytes) (now : N).
  Notation E := (mkEnv K O C dbg ent now).

  (* Signature::verify as translated never accepts an identity signature or an identity public key *)
  Theorem generated_verify_rejects_identity (sg : tagged) (pk : pt K Gpk) (msg : bytes) :
    dl (tg_pt sg) = f0 K \/ dl pk = f0 K -> gen_Signature_verify E sg pk msg <> Val (Ok tt).
  Proof.
    intros H Hv. rewrite r_sig_verify in Hv. injection Hv as Hv.
    exact (C04_signature_verify K laws O C sg pk msg H Hv).
  Qed.

  (* BlsTimeCrypt::unseal as translated opens nothing for an identity signature, an identity U or a cleared flag *)
  Theorem generated_time_lock_gating (OL : OracleLaws K O (SIG_LEN C) (PK_LEN C))
          (u : pt K Gpk) (v w : bytes) (sig : pt K Gsig) (valid : bool) (r : option bytes) :
    length v = 32%nat -> valid = false \/ dl sig = f0 K \/ dl u = f0 K ->
    gen_BlsTimeCrypt_unseal E u v w sig valid = Val r -> r = None.
  Proof. intros Hl Hc Hu. rewrite r_tl_unseal in Hu. exact (C04_time_lock_open K laws O C OL dbg u v w sig valid r Hl Hc Hu). Qed.
End G.

Print Assumptions generated_verify_rejects_identity.
Print Assumptions generated_time_lock_gating.
