(* A headline property restated about the GENERATED code (coq/Gen/Funcs.v, produced from /repo/src by rs2v on
   every run): the library's own wire constructions as translated compute the documented closed forms - the
   theorems of Props/C18 transported along the refinement lemmas. *)
From BV Require Import Alg.Field Alg.Dlog Sem.Base Model.Oracles Model.Helpers Model.Varint Model.Core
     Model.Protocols Model.Api Theory.CoreFacts Theory.Schemes Theory.PoK Theory.SignCrypt Theory.TimeLock
     Gen.Consts Gen.Funcs Refine.Prelude Refine.Tactics Refine.PoK Refine.SignCrypt Refine.TimeLock Refine.ElGamal
     Props.C18.
From Coq Require Import NArith List.

Section G.
  Context (K : FieldOps) (laws : FieldLaws K) (O : Oracles K) (C : Impl) (dbg : bool) (ent : nat -> bytes) (now : N).
  Context (OL : OracleLaws K O (SIG_LEN C) (PK_LEN C)).
  Notation E := (mkEnv K O C dbg ent now).

  (* BlsSignCrypt::seal as translated, on the w-th draw of the entropy source, is the documented triple
     (U, V, W) = (r P, frame(msg) xor SHAKE128(r PK), r H(U || V)) with r derived from that draw *)
  Theorem generated_signcrypt_seal (pk : pt K Gpk) (msg dst : bytes) (w : nat) :
    seal_side_conditions K O dbg pk msg dst (ent w) ->
    gen_BlsSignCrypt_seal E pk msg dst w = Val (sealed K O pk msg dst (ent w), S w).
  Proof.
    intros H. rewrite r_sc_seal, (C18_signcrypt_seal K laws O C OL dbg pk msg dst (ent w) H). reflexivity.
  Qed.

  (* BlsTimeCrypt::seal as translated is the documented triple in closed form *)
  Theorem generated_time_lock_seal (pk : pt K Gpk) (msg id dst : bytes) (w : nat) :
    dl pk <> f0 K -> tl_side_conditions K O dbg pk msg id dst (ent w) ->
    gen_BlsTimeCrypt_seal E pk msg id dst w = Val (Ok (tl_sealed K O pk msg id dst (ent w)), S w).
  Proof.
    intros Hpk H. rewrite r_tl_seal. rewrite (proj2 (is_id_false K laws pk) Hpk).
    rewrite (C18_time_lock_seal K laws O C OL dbg pk msg id dst (ent w) Hpk H). reflexivity.
  Qed.

  (* the challenge of the timestamp proof of knowledge hashes compressed(u) || le64(t) under the PoK salt *)
  Theorem generated_compute_y (u : pt K Gsig) (t : N) :
    gen_BlsSignatureProof_compute_y E u t = hash_to_scalar O (enc O u ++ le64 t) SALT_POK.
  Proof. rewrite r_compute_y. reflexivity. Qed.

  (* the ElGamal message generator is hash_to_point of the fixed input under the tag that names the key group *)
  Theorem generated_message_generator :
    gen_BlsElGamal_message_generator E = Val (message_generator O C).
  Proof. exact (r_message_generator O C dbg ent now). Qed.
End G.

Print Assumptions generated_signcrypt_seal.
Print Assumptions generated_time_lock_seal.
Print Assumptions generated_compute_y.
Print Assumptions generated_message_generator.
