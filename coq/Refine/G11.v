(* A headline property restated about the GENERATED code (coq/Gen/Funcs.v, produced from /repo/src by rs2v on
   every run): the property theorem of Props transported along the refinement lemmas. *)
From BV Require Import Alg.Field Alg.Dlog Sem.Base Model.Oracles Model.Helpers Model.Varint Model.Core
     Model.Protocols Model.Api Theory.CoreFacts Theory.Schemes Theory.SignCrypt Gen.Consts Gen.Funcs Refine.Prelude Refine.Tactics
     Refine.SigCore Refine.SigSchemes Refine.SignCrypt Refine.TimeLock Refine.ElGamal Refine.WEnc Refine.WSig Props.C11.

Section G.
  Context (K : FieldOps) (laws : FieldLaws K) (O : Oracles K) (C : Impl) (dbg : bool) (ent : nat -> bytes) (now : N).
  Notation E := (mkEnv K O C dbg ent now).

  (* C11: PublicKey::sign_crypt then is_valid / decrypt / SignCryptDecryptionKey::decrypt, as translated *)
  Theorem generated_sign_crypt_round_trip (OL : OracleLaws K O (SIG_LEN C) (PK_LEN C))
          (sk : car K) (s : scheme) (msg : bytes) (w0 : nat) :
    N.of_nat (length msg) < 2 ^ 64 ->
    seal_side_conditions K O dbg (public_key sk) msg (dst_of C s) (ent w0) ->
    exists ct, gen_PublicKey_sign_crypt E (public_key sk) s msg w0 = Val (ct, S w0)
               /\ gen_SignCryptCiphertext_is_valid E ct = Val true
               /\ gen_SignCryptCiphertext_decrypt E ct sk = Val (Some msg)
               /\ gen_SignCryptDecryptionKey_decrypt E (sk_sign_decryption_key sk ct) ct = Val (Some msg).
  Proof.
    intros Hl Hc. destruct (C11_round_trip_api K laws O C OL dbg ent sk s msg w0 Hl Hc) as (ct & H1 & _ & H2 & H3 & H4).
    exists ct. rewrite r_pk_sign_crypt, r_scct_is_valid, r_scct_decrypt, r_scdk_decrypt. repeat split; assumption.
  Qed.
End G.

Print Assumptions generated_sign_crypt_round_trip.
