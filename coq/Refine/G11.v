(* A headline property restated about the GENERATED code (coq/Gen/Funcs.v, produced from /repo/src by rs2v on
   every run): the property theorem of Props transported along the refinement lemmas. *)
From BV Require Import Alg.Field Alg.Dlog Sem.Base Model.Oracles Model.Helpers Model.Varint Model.Core
     Model.Protocols Model.Api Theory.CoreFacts Theory.Schemes Theory.SignCrypt Gen.Consts Gen.Funcs Refine.Prelude Refine.Tactics
     Refine.SigCore Refine.SigSchemes Refine.SignCrypt Refine.TimeLock Refine.ElGamal Refine.WEnc Refine.WSig Props.C11.

Section G.
  Context (K : FieldOps) (laws : FieldLaws K) (O : Oracles K) (C : Impl) (dbg : bool) (ent : nat -> bytes) (now : N).
  Notation E := (mkEnv K O C dbg ent now).

  (* C11: PublicKey::sign_crypt then is_valid / decrypt / SignCryptDecryptionKey::decrypt, as translated *)
  Theorem generated_sign_crypt_round_trip (OL : OracleLaws K O (SIG_LEN C) (PK_LEN C))
          (sk : car K) (s : scheme) (msg : bytes) (w0 : nat) :
    N.of_nat (length msg) < 2 ^ 64 ->
    seal_side_conditions K O dbg (public_key sk) msg (dst_of C s) (ent w0) ->
    exists ct, gen_PublicKey_sign_crypt E (public_key sk) s msg w0 = Val (ct, S w0)
               /\ gen_SignCryptCiphertext_is_valid E ct = Val true
               /\ gen_SignCryptCiphertext_decrypt E ct sk = Val (Some msg)
               /\ gen_SignCryptDecryptionKey_decrypt E (sk_sign_decryption_key sk ct) ct = Val (Some msg).
  Proof.
    intros Hl Hc. destruct (C11_round_trip_api K laws O C OL dbg ent sk s msg w0 Hl Hc) as (ct & H1 & _ & H2 & H3 & H4).
    exists ct. rewrite r_pk_sign_crypt, r_scct_is_valid, r_scct_decrypt, r_scdk_decrypt. repeat split; assumption.
  Qed.
  (* C11: a ciphertext the translated is_valid refuses never decrypts - by key, by decryption key, or by shares *)
  Theorem generated_invalid_never_decrypts (ct : sc_ct) (sk : car K) (r : option bytes) :
    gen_SignCryptCiphertext_is_valid E ct = Val false -> gen_SignCryptCiphertext_decrypt E ct sk = Val r -> r = None.
  Proof. rewrite r_scct_is_valid, r_scct_decrypt. apply (C11_invalid_never_decrypts K O C dbg ct sk r). Qed.

  Theorem generated_invalid_never_decrypts_with_key (ct : sc_ct) (dk : pt K Gpk) (r : option bytes) :
    gen_SignCryptCiphertext_is_valid E ct = Val false ->
    gen_SignCryptDecryptionKey_decrypt E dk ct = Val r -> r = None.
  Proof. rewrite r_scct_is_valid, r_scdk_decrypt. apply (C11_invalid_never_decrypts_with_key K O C dbg ct dk r). Qed.

  Theorem generated_invalid_never_decrypts_with_shares (ct : sc_ct) (shares : list share) (r : option bytes) :
    gen_SignCryptCiphertext_is_valid E ct = Val false ->
    gen_SignCryptCiphertext_decrypt_with_shares E ct shares = Val r -> r = None.
  Proof.
    rewrite r_scct_is_valid, r_scct_decrypt_with_shares.
    apply (C11_invalid_never_decrypts_with_shares K O C dbg ct shares r).
  Qed.
  (* C11: exact validity condition of the translated BlsSignCrypt::valid, and uniqueness of W *)
  Theorem generated_signcrypt_valid_exact (u : pt K Gpk) (v : bytes) (w : pt K Gsig) (dst : bytes) :
    (dbg = true -> Hw K O u v dst <> f0 K) ->
    exists b : bool,
      gen_BlsSignCrypt_valid E u v w dst = Val b
      /\ (b = true <-> dl u <> f0 K /\ dl w <> f0 K /\ dl w = fmul K (dl u) (Hw K O u v dst)).
  Proof. intros H. rewrite r_sc_valid. apply (C11_valid_exact K laws O dbg u v w dst H). Qed.

  Theorem generated_signcrypt_changed_w_invalid (u : pt K Gpk) (v : bytes) (w w' : pt K Gsig) (dst : bytes) :
    (dbg = true -> Hw K O u v dst <> f0 K) ->
    gen_BlsSignCrypt_valid E u v w dst = Val true -> gen_BlsSignCrypt_valid E u v w' dst = Val true -> w' = w.
  Proof. intros H. rewrite !r_sc_valid. apply (C11_changed_w_invalid K laws O dbg u v w w' dst H). Qed.
End G.

Print Assumptions generated_sign_crypt_round_trip.
Print Assumptions generated_invalid_never_decrypts.
Print Assumptions generated_invalid_never_decrypts_with_key.
Print Assumptions generated_invalid_never_decrypts_with_shares.
Print Assumptions generated_signcrypt_valid_exact.
Print Assumptions generated_signcrypt_changed_w_invalid.
