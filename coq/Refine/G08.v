(* Headline properties restated about the GENERATED code: threshold recombination (C08). *)
From BV Require Import Alg.Field Alg.Dlog Sem.Base Model.Oracles Model.Helpers Model.Varint Model.Core
     Model.Protocols Model.Api Theory.CoreFacts Theory.Schemes Theory.Poly Theory.Shamir Theory.Threshold
     Gen.Consts Gen.Funcs Refine.Prelude Refine.Tactics Refine.SigCore Refine.SigSchemes Refine.WSig Props.C08.

Section G.
  Context (K : FieldOps) (laws : FieldLaws K) (O : Oracles K) (C : Impl) (dbg : bool) (ent : nat -> bytes) (now : N).
  Context (OL : OracleLaws K O (SIG_LEN C) (PK_LEN C)) (EL : EmbedLaw K O).
  Notation E := (mkEnv K O C dbg ent now).

  (* SecretKey::combine as translated recovers the key from any sufficient set of distinct shares *)
  Theorem generated_combine_recovers_key (coeffs : list (car K)) (sk : car K) (rest : list (car K)) (S : list share) :
    coeffs = sk :: rest -> shares_of K O coeffs S -> NoDup (map sid S) ->
    (2 <= length S)%nat -> (length coeffs <= length S)%nat ->
    gen_SecretKey_combine E S = Val (Ok sk).
  Proof. intros. rewrite r_sk_combine. eapply (C08_combine_recovers_key K laws O C OL EL); eassumption. Qed.

  (* Signature::from_shares as translated yields the whole-key signature (byte-identical, being the same point) *)
  Theorem generated_signature_shares_recombine (s : scheme) (msg : bytes) (coeffs : list (car K)) (sk : car K)
          (rest : list (car K)) (S : list share) :
    s <> Aug -> sk <> f0 K -> coeffs = sk :: rest -> NoDup (map sid S) ->
    (2 <= length S)%nat -> (length coeffs <= length S)%nat ->
    (forall sh, In sh S -> good_id (sid sh) /\ sh = sig_share_of K O coeffs (eta O msg (dst_of C s)) (sid sh)) ->
    gen_Signature_from_shares E (map (mktshare s) S) = gen_SecretKey_sign E sk s msg.
  Proof.
    intros. rewrite r_sig_from_shares, r_sk_sign.
    rewrite <- (C08_signature_shares_recombine K laws O C OL EL s msg coeffs sk rest S) by assumption.
    symmetry. apply bind_ret.
  Qed.
  (* C08: the refusals of the translated SecretKey::combine - fewer than two shares, a zero identifier, a repeated
     identifier, a payload that is not a scalar - and of Signature::from_shares on mixed schemes *)
  Theorem generated_combine_too_few (shares : list share) :
    (length shares < 2)%nat -> gen_SecretKey_combine E shares = Val (Err VsssError).
  Proof. intros H. rewrite r_sk_combine. apply (C08_too_few_shares K O (unrepr O) shares H). Qed.

  Theorem generated_combine_zero_identifier (shares : list share) :
    In 0%N (map sid shares) -> gen_SecretKey_combine E shares = Val (Err VsssError).
  Proof. intros H. rewrite r_sk_combine. apply (C08_zero_identifier K O (unrepr O) shares H). Qed.

  Theorem generated_combine_duplicate_identifier (shares : list share) :
    ~ NoDup (map sid shares) -> gen_SecretKey_combine E shares = Val (Err VsssError).
  Proof. intros H. rewrite r_sk_combine. apply (C08_duplicate_identifier K laws O (unrepr O) shares H). Qed.

  Theorem generated_combine_invalid_payload (shares : list share) :
    (exists s, In s shares /\ unrepr O (sval s) = None) -> gen_SecretKey_combine E shares = Val (Err VsssError).
  Proof. intros H. rewrite r_sk_combine. apply (C08_invalid_payload K O (unrepr O) shares H). Qed.

  Theorem generated_from_shares_mixed_scheme (a b : tagged_share) (rest : list tagged_share) :
    ts_scheme b <> ts_scheme a ->
    gen_Signature_from_shares E (a :: b :: rest) = Val (Err InvalidSignatureScheme).
  Proof. intros H. rewrite r_sig_from_shares. apply (C08_mixed_scheme_shares K O a b rest H). Qed.
End G.

Print Assumptions generated_combine_recovers_key.
Print Assumptions generated_signature_shares_recombine.
Print Assumptions generated_combine_too_few.
Print Assumptions generated_combine_zero_identifier.
Print Assumptions generated_combine_duplicate_identifier.
Print Assumptions generated_combine_invalid_payload.
Print Assumptions generated_from_shares_mixed_scheme.
