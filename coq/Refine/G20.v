(* A headline property restated about the GENERATED code (coq/Gen/Funcs.v, produced from /repo/src by rs2v on
   every run): each sealing call as translated consumes exactly one fresh draw of the entropy source, and two
   ciphertexts with the same ephemeral point come from draws that derive the same ephemeral scalar - the theorems
   of Props/C20 transported along the refinement lemmas (through Refine/G18). *)
From BV Require Import Alg.Field Alg.Dlog Sem.Base Model.Oracles Model.Helpers Model.Varint Model.Core
     Model.Protocols Model.Api Theory.CoreFacts Theory.Schemes Theory.SignCrypt Theory.TimeLock
     Gen.Consts Gen.Funcs Refine.Prelude Refine.Tactics Refine.SignCrypt Refine.TimeLock Refine.G18 Props.C20.
From Coq Require Import NArith List.

Section G.
  Context (K : FieldOps) (laws : FieldLaws K) (O : Oracles K) (C : Impl) (dbg : bool) (ent : nat -> bytes) (now : N).
  Context (OL : OracleLaws K O (SIG_LEN C) (PK_LEN C)).
  Notation E := (mkEnv K O C dbg ent now).

  Theorem generated_signcrypt_seal_fresh (pk pk' : pt K Gpk) (msg dst msg' dst' : bytes) (w w' n n' : nat)
      (ct ct' : pt K Gpk * bytes * pt K Gsig) :
    seal_side_conditions K O dbg pk msg dst (ent w) -> seal_side_conditions K O dbg pk' msg' dst' (ent w') ->
    gen_BlsSignCrypt_seal E pk msg dst w = Val (ct, n) -> gen_BlsSignCrypt_seal E pk' msg' dst' w' = Val (ct', n') ->
    n = S w /\ n' = S w' /\ (fst (fst ct) = fst (fst ct') -> r_of K O (ent w) = r_of K O (ent w')).
  Proof.
    intros H H'. rewrite (generated_signcrypt_seal K laws O C dbg ent now OL pk msg dst w H).
    rewrite (generated_signcrypt_seal K laws O C dbg ent now OL pk' msg' dst' w' H').
    intros E1 E2. injection E1 as <- <-. injection E2 as <- <-. repeat split.
    apply (C20_signcrypt_ephemeral K laws O).
  Qed.

  Theorem generated_time_lock_seal_fresh (pk pk' : pt K Gpk) (msg id dst msg' id' dst' : bytes) (w w' n n' : nat)
      (ct ct' : pt K Gpk * bytes * bytes) :
    dl pk <> f0 K -> dl pk' <> f0 K ->
    tl_side_conditions K O dbg pk msg id dst (ent w) -> tl_side_conditions K O dbg pk' msg' id' dst' (ent w') ->
    gen_BlsTimeCrypt_seal E pk msg id dst w = Val (Ok ct, n) ->
    gen_BlsTimeCrypt_seal E pk' msg' id' dst' w' = Val (Ok ct', n') ->
    n = S w /\ n' = S w' /\
    (fst (fst ct) = fst (fst ct') ->
     r_tl K O (repr O (alpha_of K O (ent w))) msg = r_tl K O (repr O (alpha_of K O (ent w'))) msg').
  Proof.
    intros Hp Hp' H H'. rewrite (generated_time_lock_seal K laws O C dbg ent now OL pk msg id dst w Hp H).
    rewrite (generated_time_lock_seal K laws O C dbg ent now OL pk' msg' id' dst' w' Hp' H').
    intros E1 E2. injection E1 as <- <-. injection E2 as <- <-. repeat split.
    apply (C20_time_lock_ephemeral K laws O).
  Qed.
End G.

Print Assumptions generated_signcrypt_seal_fresh.
Print Assumptions generated_time_lock_seal_fresh.
