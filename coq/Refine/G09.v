(* A headline property restated about the GENERATED code (coq/Gen/Funcs.v, produced from /repo/src by rs2v on
   every run): the property theorem of Props transported along the refinement lemmas. *)
From BV Require Import Alg.Field Alg.Dlog Sem.Base Model.Oracles Model.Helpers Model.Varint Model.Core
     Model.Protocols Model.Api Theory.CoreFacts Theory.Schemes Gen.Consts Gen.Funcs Refine.Prelude Refine.Tactics
     Refine.SigCore Refine.SigSchemes Refine.WSig Props.C09.

Section G.
  Context (K : FieldOps) (laws : FieldLaws K) (O : Oracles K) (C : Impl) (dbg : bool) (ent : nat -> bytes) (now : N).
  Notation E := (mkEnv K O C dbg ent now).

  (* C09: SecretKey::proof_of_possession then ProofOfPossession::verify, as translated *)
  Theorem generated_pop_verifies (sk : car K) :
    sk <> f0 K -> Hpop K O C (public_key sk) <> f0 K ->
    exists p, gen_SecretKey_proof_of_possession E sk = Val (Ok p)
              /\ gen_ProofOfPossession_verify E p (public_key sk) = Val (Ok tt).
  Proof.
    intros Hk Hh. destruct (C09_complete K laws O C sk Hk Hh) as (p & Hp & Hv).
    exists p. rewrite r_sk_proof_of_possession, r_pop_wrapper_verify, Hp, Hv. split; reflexivity.
  Qed.
  (* C09, exactness of the translated verifier *)
  Theorem generated_pop_verify_exact (p : pt K Gsig) (pk : pt K Gpk) :
    gen_ProofOfPossession_verify E p pk = Val (Ok tt)
    <-> dl p <> f0 K /\ dl pk <> f0 K /\ dl p = fmul K (dl pk) (Hpop K O C pk).
  Proof.
    rewrite r_pop_wrapper_verify. rewrite <- (C09_exact K laws O C p pk).
    split; [intros H; injection H; auto | intros ->; reflexivity].
  Qed.

  (* C09: any change to the proof is rejected by the translated verifier *)
  Theorem generated_pop_any_change_rejected (sk : car K) (p p' : pt K Gsig) :
    gen_SecretKey_proof_of_possession E sk = Val (Ok p) -> p' <> p ->
    gen_ProofOfPossession_verify E p' (public_key sk) <> Val (Ok tt).
  Proof.
    rewrite r_sk_proof_of_possession, r_pop_wrapper_verify. intros Hp Hne Hv.
    injection Hp as Hp. injection Hv as Hv.
    exact (C09_any_change_rejected K laws O C sk p p' Hp Hne Hv).
  Qed.

  (* C09: the zero key is refused by the translated prover *)
  Theorem generated_pop_zero_key_refused :
    gen_SecretKey_proof_of_possession E (f0 K) = Val (Err SigningError).
  Proof. rewrite r_sk_proof_of_possession, (C09_zero_key_refused K laws O C). reflexivity. Qed.
End G.

Print Assumptions generated_pop_verifies.
Print Assumptions generated_pop_verify_exact.
Print Assumptions generated_pop_any_change_rejected.
Print Assumptions generated_pop_zero_key_refused.
