(* A headline property restated about the GENERATED code (coq/Gen/Funcs.v, produced from /repo/src by rs2v on
   every run): the property theorem of Props transported along the refinement lemmas. *)
From BV Require Import Alg.Field Alg.Dlog Sem.Base Model.Oracles Model.Helpers Model.Varint Model.Core
     Model.Protocols Model.Api Theory.CoreFacts Theory.Schemes Gen.Consts Gen.Funcs Refine.Prelude Refine.Tactics
     Refine.SigCore Refine.SigSchemes Refine.WSig Props.C09.

Section G.
  Context (K : FieldOps) (laws : FieldLaws K) (O : Oracles K) (C : Impl) (dbg : bool) (ent : nat -> bytes) (now : N).
  Notation E := (mkEnv K O C dbg ent now).

  (* C09: SecretKey::proof_of_possession then ProofOfPossession::verify, as translated *)
  Theorem generated_pop_verifies (sk : car K) :
    sk <> f0 K -> Hpop K O C (public_key sk) <> f0 K ->
    exists p, gen_SecretKey_proof_of_possession E sk = Val (Ok p)
              /\ gen_ProofOfPossession_verify E p (public_key sk) = Val (Ok tt).
  Proof.
    intros Hk Hh. destruct (C09_complete K laws O C sk Hk Hh) as (p & Hp & Hv).
    exists p. rewrite r_sk_proof_of_possession, r_pop_wrapper_verify, Hp, Hv. split; reflexivity.
  Qed.
End G.

Print Assumptions generated_pop_verifies.
