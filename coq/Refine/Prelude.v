(* Vocabulary of the code that rs2v generates from /repo/src function bodies (coq/Gen/Funcs.v).

   rs2v is purely syntactic: Rust control flow becomes Gallina control flow in the outcome
   monad M, and each Rust operation becomes the combinator below with the same name.
   Overloaded operators (`*`, `+`, `-`, `==`, `<`, integer literals) are resolved by Coq's
   elaborator through the classes declared here, so the translator needs no type checker.
   External crates (group arithmetic, hash-to-curve, HKDF, SHAKE, merlin, vsss-rs share
   containers and combination, uint-zigzag) are NOT translated: their calls map onto the model's
   hand-written primitives (Alg/Dlog.v, Model/Oracles.v, Model/Core.v, Model/Varint.v). *)
From BV Require Import Alg.Field Alg.Dlog Sem.Base Model.Oracles Model.Helpers Model.Varint Model.Core.

(* what a generated function is evaluated in *)
Record Env (K : FieldOps) : Type := mkEnv {
  eO : Oracles K; eC : Impl; edbg : bool;
  eent : nat -> bytes;        (* i-th get_crypto_rng() of the process is seeded with eent i *)
  enow : N                    (* SystemTime::now() in ns since the epoch (read at most once per call) *)
}.
Arguments eO {K} _.
Arguments eC {K} _.
Arguments edbg {K} _.
Arguments eent {K} _.
Arguments enow {K} _.

(* ---- loops ---- *)
Inductive flow (R S : Type) : Type := Ret (r : R) | Next (s : S).
Arguments Ret {R S} r.
Arguments Next {R S} s.

Fixpoint rs_for {A R S} (l : list A) (s : S) (body : S -> A -> M (flow R S)) (k : S -> M R) : M R :=
  match l with
  | [] => k s
  | a :: l' => f <- body s a ;;
               match f with Ret r => Val r | Next s' => rs_for l' s' body k end
  end.

(* `while c { .. }`: the bound stands for non-termination (outcome Loop) *)
Definition WHILE_FUEL : nat := 64.
Fixpoint rs_while_fuel {R S} (fuel : nat) (s : S) (cond : S -> bool) (body : S -> M (flow R S))
         (k : S -> M R) : M R :=
  match fuel with
  | O => Loop
  | S f => if cond s
           then (x <- body s ;;
                 match x with Ret r => Val r | Next s' => rs_while_fuel f s' cond body k end)
           else k s
  end.
Definition rs_while {R S} := @rs_while_fuel R S WHILE_FUEL.

Fixpoint rs_enumerate_from {A} (i : nat) (l : list A) : list (nat * A) :=
  match l with [] => [] | a :: l' => (i, a) :: rs_enumerate_from (S i) l' end.
Definition rs_enumerate {A} (l : list A) := rs_enumerate_from 0 l.

(* ---- overloaded operators ---- *)
Class RsMul (A B C : Type) := rs_mul : A -> B -> C.
Class RsAdd (A : Type) := rs_add : A -> A -> A.
Class RsSub (A : Type) := rs_sub : A -> A -> A.
Class RsNeg (A : Type) := rs_neg : A -> A.
Class RsEqb (A : Type) := rs_eqb : A -> A -> bool.
Class RsLtb (A : Type) := rs_ltb : A -> A -> bool.
Class RsLeb (A : Type) := rs_leb : A -> A -> bool.
Class RsNum (A : Type) := rs_num : N -> A.
#[global] Hint Mode RsMul ! - - : typeclass_instances.
#[global] Hint Mode RsAdd ! : typeclass_instances.
#[global] Hint Mode RsSub ! : typeclass_instances.
#[global] Hint Mode RsNeg ! : typeclass_instances.
#[global] Hint Mode RsEqb ! : typeclass_instances.
#[global] Hint Mode RsLtb ! : typeclass_instances.
#[global] Hint Mode RsLeb ! : typeclass_instances.
#[global] Hint Mode RsNum ! : typeclass_instances.

#[global] Instance mul_pt {K g} : RsMul (pt K g) (car K) (pt K g) := pmul.
#[global] Instance mul_nat : RsMul nat nat nat := Nat.mul.
#[global] Instance mul_N : RsMul N N N := N.mul.
#[global] Instance add_pt {K g} : RsAdd (pt K g) := padd.
#[global] Instance add_nat : RsAdd nat := Nat.add.
#[global] Instance add_N : RsAdd N := N.add.
#[global] Instance sub_pt {K g} : RsSub (pt K g) := psub.
#[global] Instance sub_nat : RsSub nat := Nat.sub.
#[global] Instance neg_pt {K g} : RsNeg (pt K g) := pneg.
#[global] Instance eqb_nat : RsEqb nat := Nat.eqb.
#[global] Instance eqb_N : RsEqb N := N.eqb.
#[global] Instance eqb_bytes : RsEqb bytes := bytes_eqb_v.
#[global] Instance ltb_nat : RsLtb nat := Nat.ltb.
#[global] Instance ltb_N : RsLtb N := N.ltb.
#[global] Instance leb_nat : RsLeb nat := Nat.leb.
#[global] Instance leb_N : RsLeb N := N.leb.
#[global] Instance num_nat : RsNum nat := N.to_nat.
#[global] Instance num_N : RsNum N := fun n => n.

(* scalars are `car K`, a projection: instances are given through a wrapper-free alias so that
   resolution keys on the head `car` *)
#[global] Instance mul_F {K} : RsMul (car K) (car K) (car K) := fmul K.
#[global] Instance add_F {K} : RsAdd (car K) := fadd K.
#[global] Instance sub_F {K} : RsSub (car K) := fsub K.
#[global] Instance neg_F {K} : RsNeg (car K) := fopp K.
#[global] Instance eqb_F {K} : RsEqb (car K) := feqb K.

Definition b2u8 (b : bool) : N := if b then 1 else 0.           (* Choice::unwrap_u8 *)

(* ---- Vec<u8> / slices ---- *)
Definition rs_vec_zeros (n : nat) : bytes := repeatN 0 n.          (* vec![0u8; n], [0u8; n] *)
(* dst[lo..hi].copy_from_slice(src): panics unless hi <= len and src.len() == hi - lo *)
Definition rs_copy_range (dst : bytes) (lo hi : nat) (src : bytes) : M bytes :=
  if Nat.leb lo hi && Nat.leb hi (length dst) && Nat.eqb (length src) (hi - lo)
  then Val (firstn lo dst ++ src ++ skipn hi dst) else Panic.
(* &v[lo..hi]: panics unless lo <= hi <= len *)
Definition rs_slice {A} (v : list A) (lo hi : nat) : M (list A) :=
  if Nat.leb lo hi && Nat.leb hi (length v) then Val (firstn (hi - lo) (skipn lo v)) else Panic.
(* v[i]: panics when out of range *)
Definition rs_index {A} (v : list A) (i : nat) : M A :=
  match nth_error v i with Some a => Val a | None => Panic end.
(* iter().all(|x| ..) with a closure that can panic: stops at the first false *)
Fixpoint rs_allM {A} (f : A -> M bool) (l : list A) : M bool :=
  match l with
  | [] => Val true
  | a :: l' => b <- f a ;; if b then rs_allM f l' else Val false
  end.

(* ---- results / options ---- *)
Definition rs_is_some {A} (o : option A) : bool := match o with Some _ => true | None => false end.
Definition rs_split_first {A} (l : list A) : option (A * list A) :=
  match l with [] => None | a :: l' => Some (a, l') end.
Definition rs_map_err {A} (r : res A) (e : err) : res A :=
  match r with Ok a => Ok a | Err _ => Err e end.
Definition rs_ok {A} (r : res A) : option A := match r with Ok a => Some a | Err _ => None end.

Class RsUnwrap (T : Type -> Type) := rs_unwrap : forall {A}, T A -> M A.      (* unwrap / expect *)
#[global] Instance unwrap_option : RsUnwrap option :=
  fun A o => match o with Some a => Val a | None => Panic end.
#[global] Instance unwrap_res : RsUnwrap res :=
  fun A r => match r with Ok a => Val a | Err _ => Panic end.
(* <[u8; n]>::try_from(slice) *)
Definition rs_try_array (n : nat) (v : bytes) : res bytes :=
  if Nat.eqb (length v) n then Ok v else Err DeserializationError.   (* TryFromSliceError: always mapped or unwrapped *)

(* ---- merlin transcript, symbolically: protocol label and the ordered (label, message) list;
   the 64 challenge bytes stay symbolic until from_bytes_wide consumes them (oracle `fs`) ---- *)
Definition transcript : Type := (bytes * list (bytes * bytes))%type.
Definition tr_new (l : bytes) : transcript := (l, []).
Definition tr_append (t : transcript) (l m : bytes) : transcript := (fst t, snd t ++ [(l, m)]).
Definition challenge : Type := (transcript * bytes)%type.
Definition tr_challenge {B} (t : transcript) (l : bytes) (buf : B) : challenge := (t, l).

(* ---- hkdf::HkdfExtract: (salt, input keying material so far); no salt is the empty key ---- *)
Definition hkdf_new (salt : option bytes) : bytes * bytes :=
  (match salt with Some s => s | None => [] end, []).

(* ---- vsss-rs share containers ([u8; L]: identifier byte, then L-1 value bytes) ---- *)
Definition share_empty (cap : nat) : share := mkshare 0 (repeatN 0 cap).
Definition share_set_identifier (s : share) (id : N) : share := mkshare id (sval s).
(* Share::value_mut(buf): Err unless buf.len() >= L-1; copies the first L-1 bytes *)
Definition share_value_mut (s : share) (buf : bytes) : res share :=
  if Nat.ltb (length buf) (length (sval s)) then Err VsssError
  else Ok (mkshare (sid s) (firstn (length (sval s)) buf)).

(* ---- generators handed around as `impl RngCore` ---- *)
Definition rng : Type := (bytes * nat)%type.      (* seed, scalars taken so far *)

Section WithK.
  Context {K : FieldOps}.
  Notation F := (car K).

  Definition rng_random (O : Oracles K) (r : rng) : F * rng :=
    (rng_scalar O (fst r) (snd r), (fst r, S (snd r))).
  (* get_crypto_rng(): world w -> (generator, next world) *)
  Definition world_rng (ent : nat -> bytes) (w : nat) : rng * nat := ((ent w, 0%nat), S w).
  (* rng.gen::<[u8; 32]>() on a fresh generator *)
  Definition rng_gen32 (O : Oracles K) (r : rng) : bytes := rng_bytes32 O (fst r).

  Definition rs_from_bytes_wide (O : Oracles K) (c : challenge) : F :=
    fs O (fst (fst c)) (snd (fst c)) (snd c).

  (* vsss-rs combine_shares_group on signature-group / public-key-group shares *)
  Definition rs_combine_sig (O : Oracles K) (shares : list share) : M (res (pt K Gsig)) :=
    core_combine_signature_shares O shares.
  Definition rs_combine_pk (O : Oracles K) (shares : list share) : M (res (pt K Gpk)) :=
    core_combine_public_key_shares O shares.

  (* HashMap<Vec<u8>, usize>::insert *)
  Definition hmap := list (bytes * nat).
  Fixpoint hm_get (m : hmap) (k : bytes) : option nat :=
    match m with
    | [] => None
    | (k', v) :: m' => if bytes_eqb k k' then Some v else hm_get m' k
    end.
  Definition hm_insert (m : hmap) (k : bytes) (v : nat) : option nat * hmap :=
    (hm_get m k, (k, v) :: m).
End WithK.
