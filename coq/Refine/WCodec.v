(* Tie #1 (translator), function bodies: the byte conversions of the wrapper types
   (impl TryFrom<&[u8]> for T / impl From<&T> for Vec<u8>) as rs2v generates them equal the model's
   (Model/Codec.v).  `serde_bare::{to_vec, from_slice}` are primitives (Refine/PreludeCodec.v). *)
From BV Require Import Alg.Field Alg.Dlog Sem.Base Model.Oracles Model.Helpers Model.Varint Model.Core
     Model.Protocols Model.Api Model.Codec Gen.Consts Gen.Funcs Refine.Prelude Refine.PreludeCodec Refine.Tactics
     Refine.Frames Refine.HelpersR Refine.WSig.

Ltac c_unfold1 :=
  unfold bare_to_vec_Signature, bare_to_vec_AggregateSignature, bare_to_vec_MultiSignature, bare_to_vec_ProofCommitment,
    bare_from_slice_Signature, bare_from_slice_AggregateSignature, bare_from_slice_MultiSignature,
    bare_from_slice_ProofCommitment, bare_to_vec_ProofOfKnowledge, bare_from_slice_ProofOfKnowledge,
    bare_to_vec_ProofOfKnowledgeTimestamp, bare_from_slice_ProofOfKnowledgeTimestamp,
    bare_to_vec_SecretKeyShare, bare_from_slice_SecretKeyShare, bare_to_vec_ElGamalDecryptionShare,
    bare_from_slice_ElGamalDecryptionShare, bare_to_vec_pk_share, bare_from_slice_pk_share,
    bare_to_vec_scheme_share, bare_from_slice_scheme_share,
    bare_to_vec_SignCryptCiphertext, bare_from_slice_SignCryptCiphertext, bare_to_vec_ElGamalDecryptionKey,
    bare_from_slice_ElGamalDecryptionKey, bare_to_vec_SignCryptDecryptionKey, bare_from_slice_SignCryptDecryptionKey,
    bare_to_vec_TimeCryptCiphertext, bare_from_slice_TimeCryptCiphertext, bare_to_vec_ElGamalCiphertext,
    bare_from_slice_ElGamalCiphertext, bare_to_vec_ElGamalProof, bare_from_slice_ElGamalProof,
    rs_ok_or, rs_map_err, rs_unwrap, unwrap_res, unwrap_option in *.

Ltac c_unfold := c_unfold1; c_unfold1.

Section R.
  Context {K : FieldOps} (O : Oracles K) (C : Impl) (dbg : bool) (ent : nat -> bytes) (now : N).
  Notation E := (mkEnv K O C dbg ent now).
  Notation F := (car K).

  (* ---- scheme-tagged points ---- *)
  Lemma r_signature_to_vec t : gen_Signature_to_vec_bytes E t = Val (tagged_to_bytes O C t).
  Proof. reflexivity. Qed.
  Lemma r_aggregate_to_vec t : gen_AggregateSignature_to_vec_bytes E t = Val (tagged_to_bytes O C t).
  Proof. reflexivity. Qed.
  Lemma r_multisig_to_vec t : gen_MultiSignature_to_vec_bytes E t = Val (tagged_to_bytes O C t).
  Proof. reflexivity. Qed.
  Lemma r_commitment_to_vec t : gen_ProofCommitment_to_vec_bytes E t = Val (tagged_to_bytes O C t).
  Proof. reflexivity. Qed.
  Lemma r_signature_try_from b : gen_Signature_try_from_bytes E b = Val (signature_try_from O C b).
  Proof. unfold gen_Signature_try_from_bytes, signature_try_from. c_unfold. cbn [eO eC].
    destruct (tagged_from_bare O C b); reflexivity. Qed.
  Lemma r_aggregate_try_from b : gen_AggregateSignature_try_from_bytes E b = Val (signature_try_from O C b).
  Proof. unfold gen_AggregateSignature_try_from_bytes, signature_try_from. c_unfold. cbn [eO eC].
    destruct (tagged_from_bare O C b); reflexivity. Qed.
  Lemma r_multisig_try_from b : gen_MultiSignature_try_from_bytes E b = Val (multisig_try_from O C b).
  Proof. unfold gen_MultiSignature_try_from_bytes, multisig_try_from. c_unfold. cbn [eO eC].
    destruct (tagged_from_bare O C b); reflexivity. Qed.

  Lemma r_commitment_try_from (OL : OracleLaws K O (SIG_LEN C) (PK_LEN C)) b :
    gen_ProofCommitment_try_from_bytes E b = Val (commitment_try_from O C b).
  Proof.
    unfold gen_ProofCommitment_try_from_bytes, commitment_try_from, signature_try_from. c_unfold. cbn [eO eC enc].
    cbv zeta. rewrite (ol_enc_sig_len K O _ _ OL).
    change (rs_add (SIG_LEN C) (rs_num 1%N)) with (SIG_LEN C + 1)%nat. rewrite Nat.add_1_r.
    change (rs_eqb ?a ?b) with (Nat.eqb a b).
    destruct (Nat.eqb (length b) (S (SIG_LEN C))); cbn [negb]; [|reflexivity].
    destruct (tagged_from_bare O C b); reflexivity.
  Qed.

  (* ---- proofs of knowledge ---- *)
  Lemma r_pok_to_vec p : gen_ProofOfKnowledge_to_vec_bytes E p = Val (pok_to_bytes O C p).
  Proof. reflexivity. Qed.
  Lemma r_pok_try_from b : gen_ProofOfKnowledge_try_from_bytes E b = Val (pok_try_from O C b).
  Proof. unfold gen_ProofOfKnowledge_try_from_bytes. c_unfold. cbn [eO eC].
    destruct (pok_try_from O C b); reflexivity. Qed.
  Lemma r_pokts_to_vec p : gen_ProofOfKnowledgeTimestamp_to_vec_bytes E p = Val (pokts_to_bytes O C p).
  Proof. reflexivity. Qed.
  Lemma r_pokts_try_from b : gen_ProofOfKnowledgeTimestamp_try_from_bytes E b = Val (pokts_try_from O C b).
  Proof. unfold gen_ProofOfKnowledgeTimestamp_try_from_bytes. c_unfold. cbn [eO eC].
    destruct (pokts_try_from O C b); reflexivity. Qed.

  (* ---- keys and proofs of possession: exact length, checked point / non-zero scalar ---- *)
  Lemma copy_over (z v : bytes) n : length z = n -> length v = n -> rs_copy_range z 0 n v = Val v.
  Proof.
    intros Hz Hv. unfold rs_copy_range. rewrite Hz, Nat.leb_refl, Nat.sub_0_r, Hv, Nat.eqb_refl.
    cbn [Nat.leb andb firstn app]. rewrite <- Hz, skipn_all, app_nil_r. reflexivity.
  Qed.

  Lemma r_pk_to_vec p : gen_PublicKey_to_vec_bytes E p = Val (pk_to_bytes O p).
  Proof. reflexivity. Qed.
  Lemma r_multi_pk_to_vec p : gen_MultiPublicKey_to_vec_bytes E p = Val (pk_to_bytes O p).
  Proof. reflexivity. Qed.
  Lemma r_pop_to_vec p : gen_ProofOfPossession_to_vec_bytes E p = Val (pop_to_bytes O p).
  Proof. reflexivity. Qed.

  Lemma r_pk_try_from (OL : OracleLaws K O (SIG_LEN C) (PK_LEN C)) b :
    gen_PublicKey_try_from_bytes E b = Val (pk_try_from O C b).
  Proof.
    unfold gen_PublicKey_try_from_bytes, pk_try_from, dec_pk_pt. c_unfold. cbn [eO enc]. cbv zeta.
    change (rs_eqb ?a ?b) with (Nat.eqb a b).
    rewrite (ol_enc_pk_len K O _ _ OL), (Nat.eqb_sym (PK_LEN C)).
    destruct (Nat.eqb (length b) (PK_LEN C)) eqn:Hl; cbn [negb]; [|reflexivity].
    apply Nat.eqb_eq in Hl.
    rewrite copy_over by (try apply (ol_enc_pk_len K O _ _ OL); assumption). cbn [bind].
    destruct (dec_pk O b); reflexivity.
  Qed.
  Lemma r_multi_pk_try_from (OL : OracleLaws K O (SIG_LEN C) (PK_LEN C)) b :
    gen_MultiPublicKey_try_from_bytes E b = Val (pk_try_from O C b).
  Proof.
    unfold gen_MultiPublicKey_try_from_bytes, pk_try_from, dec_pk_pt. c_unfold. cbn [eO enc]. cbv zeta.
    change (rs_eqb ?a ?b) with (Nat.eqb a b).
    rewrite (ol_enc_pk_len K O _ _ OL), (Nat.eqb_sym (PK_LEN C)).
    destruct (Nat.eqb (length b) (PK_LEN C)) eqn:Hl; cbn [negb]; [|reflexivity].
    apply Nat.eqb_eq in Hl.
    rewrite copy_over by (try apply (ol_enc_pk_len K O _ _ OL); assumption). cbn [bind].
    destruct (dec_pk O b); reflexivity.
  Qed.
  Lemma r_pop_try_from (OL : OracleLaws K O (SIG_LEN C) (PK_LEN C)) b :
    gen_ProofOfPossession_try_from_bytes E b = Val (pop_try_from O C b).
  Proof.
    unfold gen_ProofOfPossession_try_from_bytes, pop_try_from, dec_sig_pt. c_unfold. cbn [eO enc]. cbv zeta.
    change (rs_eqb ?a ?b) with (Nat.eqb a b).
    rewrite (ol_enc_sig_len K O _ _ OL), (Nat.eqb_sym (SIG_LEN C)).
    destruct (Nat.eqb (length b) (SIG_LEN C)) eqn:Hl; cbn [negb]; [|reflexivity].
    apply Nat.eqb_eq in Hl.
    rewrite copy_over by (try apply (ol_enc_sig_len K O _ _ OL); assumption). cbn [bind].
    destruct (dec_sig O b); reflexivity.
  Qed.

  Lemma r_sk_to_vec s : gen_SecretKey_to_vec_bytes E s = Val (sk_to_bytes O s).
  Proof. unfold gen_SecretKey_to_vec_bytes. rewrite r_sk_to_be_bytes. reflexivity. Qed.
  Lemma r_pcs_to_vec s : gen_ProofCommitmentSecret_to_vec_bytes E s = Val (sk_to_bytes O s).
  Proof. reflexivity. Qed.
  Lemma r_pcc_to_vec s : gen_ProofCommitmentChallenge_to_vec_bytes E s = Val (sk_to_bytes O s).
  Proof. reflexivity. Qed.
  Lemma r_sk_try_from b : gen_SecretKey_try_from_bytes E b = Val (sk_try_from O b).
  Proof.
    unfold gen_SecretKey_try_from_bytes, sk_try_from, rs_try_array. c_unfold.
    destruct (Nat.eqb (length b) 32); cbn [negb]; [|reflexivity].
    rewrite r_sk_from_be_bytes. cbn [bind]. destruct (scalar_from_be_bytes O b); reflexivity.
  Qed.
  Lemma r_pcs_try_from b : gen_ProofCommitmentSecret_try_from_bytes E b = Val (sk_try_from O b).
  Proof.
    unfold gen_ProofCommitmentSecret_try_from_bytes, sk_try_from, rs_try_array. c_unfold.
    destruct (Nat.eqb (length b) 32); cbn [negb]; [|reflexivity].
    cbn [eO]. destruct (scalar_from_be_bytes O b); reflexivity.
  Qed.
  Lemma r_pcc_try_from b : gen_ProofCommitmentChallenge_try_from_bytes E b = Val (sk_try_from O b).
  Proof.
    unfold gen_ProofCommitmentChallenge_try_from_bytes, sk_try_from, rs_try_array. c_unfold.
    destruct (Nat.eqb (length b) 32); cbn [negb]; [|reflexivity].
    cbn [eO]. destruct (scalar_from_be_bytes O b); reflexivity.
  Qed.

  (* ---- share containers ---- *)
  Lemma share_try_from_err cap e b :
    rs_map_err (share_try_from cap DeserializationError b) e = share_try_from cap e b.
  Proof. unfold share_try_from. destruct (dec_shape (SFixed (S cap)) b) as [[[x|bs|x y|t x] r]|]; try reflexivity.
    destruct bs; reflexivity. Qed.

  Lemma r_sks_to_vec s : gen_SecretKeyShare_to_vec_bytes E s = Val (share_to_bytes s).
  Proof. reflexivity. Qed.
  Lemma r_pks_to_vec s : gen_PublicKeyShare_to_vec_bytes E s = Val (share_to_bytes s).
  Proof. reflexivity. Qed.
  Lemma r_sds_to_vec s : gen_SignDecryptionShare_to_vec_bytes E s = Val (share_to_bytes s).
  Proof. reflexivity. Qed.
  Lemma r_egds_to_vec s : gen_ElGamalDecryptionShare_to_vec_bytes E s = Val (share_to_bytes s).
  Proof. reflexivity. Qed.
  Lemma r_sks_try_from b : gen_SecretKeyShare_try_from_bytes E b = Val (sk_share_try_from b).
  Proof. unfold gen_SecretKeyShare_try_from_bytes, sk_share_try_from, bare_from_slice_SecretKeyShare.
    rewrite share_try_from_err. reflexivity. Qed.
  Lemma r_pks_try_from b : gen_PublicKeyShare_try_from_bytes E b = Val (pk_share_try_from C b).
  Proof. unfold gen_PublicKeyShare_try_from_bytes, pk_share_try_from, bare_from_slice_pk_share.
    cbn [eC]. rewrite share_try_from_err. reflexivity. Qed.
  Lemma r_sds_try_from b : gen_SignDecryptionShare_try_from_bytes E b = Val (pk_share_try_from C b).
  Proof. unfold gen_SignDecryptionShare_try_from_bytes, pk_share_try_from, bare_from_slice_pk_share.
    cbn [eC]. rewrite share_try_from_err. reflexivity. Qed.
  Lemma r_egds_try_from b : gen_ElGamalDecryptionShare_try_from_bytes E b = Val (eg_share_try_from C b).
  Proof. unfold gen_ElGamalDecryptionShare_try_from_bytes, eg_share_try_from. c_unfold. cbn [eC].
    destruct (share_try_from (PK_LEN C) DeserializationError b); reflexivity. Qed.

  Lemma r_sigshare_to_vec t : gen_SignatureShare_to_vec_bytes E t = Val (sig_share_to_bytes t).
  Proof. destruct t as [[] s]; reflexivity. Qed.
  Lemma r_sigshare_try_from b : gen_SignatureShare_try_from_bytes E b = Val (sig_share_try_from C b).
  Proof.
    unfold gen_SignatureShare_try_from_bytes, sig_share_try_from. c_unfold. cbn [eC].
    destruct (dec_shape (sh_sig_share C) b) as [[[n|bs0|x y|t x] r]|]; try reflexivity.
    destruct x as [n|bs0|x1 x2|t x1]; try reflexivity. destruct y as [m|bs|y1 y2|t y1]; try reflexivity.
    destruct bs as [|id v]; try reflexivity.
    cbn. unfold scheme_of_u8. destruct (n =? 0); [reflexivity|]. destruct (n =? 1); reflexivity.
  Qed.

  (* ---- ciphertexts, decryption keys, ElGamal ---- *)
  Lemma r_scct_to_vec ct : gen_SignCryptCiphertext_to_vec_bytes E ct = Val (scct_to_bytes O C ct).
  Proof. reflexivity. Qed.
  Lemma r_scct_try_from b : gen_SignCryptCiphertext_try_from_bytes E b = Val (scct_try_from O C b).
  Proof. unfold gen_SignCryptCiphertext_try_from_bytes. c_unfold. cbn [eO eC].
    destruct (scct_try_from O C b); reflexivity. Qed.
  Lemma r_scdk_to_vec p : gen_SignCryptDecryptionKey_to_vec_bytes E p = Val (pk_to_bytes O p).
  Proof. reflexivity. Qed.
  Lemma r_scdk_try_from b : gen_SignCryptDecryptionKey_try_from_bytes E b = Val (pk_bare_try_from O C b).
  Proof. unfold gen_SignCryptDecryptionKey_try_from_bytes. c_unfold. cbn [eO eC].
    destruct (pk_bare_try_from O C b); reflexivity. Qed.
  Lemma r_egdk_to_vec p : gen_ElGamalDecryptionKey_to_vec_bytes E p = Val (pk_to_bytes O p).
  Proof. reflexivity. Qed.
  Lemma r_egdk_try_from b : gen_ElGamalDecryptionKey_try_from_bytes E b = Val (pk_bare_try_from O C b).
  Proof. unfold gen_ElGamalDecryptionKey_try_from_bytes. c_unfold. cbn [eO eC].
    destruct (pk_bare_try_from O C b); reflexivity. Qed.
  Lemma r_tlct_to_vec ct : gen_TimeCryptCiphertext_to_vec_bytes E ct = Val (tlct_to_bytes O C ct).
  Proof. reflexivity. Qed.
  Lemma r_tlct_try_from b : gen_TimeCryptCiphertext_try_from_bytes E b = Val (tlct_try_from O C b).
  Proof. unfold gen_TimeCryptCiphertext_try_from_bytes. c_unfold. cbn [eO eC].
    destruct (tlct_try_from O C b); reflexivity. Qed.
  Lemma r_egct_to_vec ct : gen_ElGamalCiphertext_to_vec_bytes E ct = Val (egct_to_bytes O C ct).
  Proof. reflexivity. Qed.
  Lemma r_egct_try_from b : gen_ElGamalCiphertext_try_from_bytes E b = Val (egct_try_from O C b).
  Proof. unfold gen_ElGamalCiphertext_try_from_bytes. c_unfold. cbn [eO eC].
    destruct (egct_try_from O C b); reflexivity. Qed.
  Lemma r_egp_to_vec p : gen_ElGamalProof_to_vec_bytes E p = Val (egp_to_bytes O C p).
  Proof. reflexivity. Qed.
  Lemma r_egp_try_from b : gen_ElGamalProof_try_from_bytes E b = Val (egp_try_from O C b).
  Proof. unfold gen_ElGamalProof_try_from_bytes. c_unfold. cbn [eO eC].
    destruct (egp_try_from O C b); reflexivity. Qed.
End R.
Print Assumptions r_signature_to_vec.
Print Assumptions r_aggregate_to_vec.
Print Assumptions r_multisig_to_vec.
Print Assumptions r_commitment_to_vec.
Print Assumptions r_signature_try_from.
Print Assumptions r_aggregate_try_from.
Print Assumptions r_multisig_try_from.
Print Assumptions r_commitment_try_from.
Print Assumptions r_pok_to_vec.
Print Assumptions r_pok_try_from.
Print Assumptions r_pokts_to_vec.
Print Assumptions r_pokts_try_from.
Print Assumptions r_pk_to_vec.
Print Assumptions r_multi_pk_to_vec.
Print Assumptions r_pop_to_vec.
Print Assumptions r_pk_try_from.
Print Assumptions r_multi_pk_try_from.
Print Assumptions r_pop_try_from.
Print Assumptions r_sk_to_vec.
Print Assumptions r_pcs_to_vec.
Print Assumptions r_pcc_to_vec.
Print Assumptions r_sk_try_from.
Print Assumptions r_pcs_try_from.
Print Assumptions r_pcc_try_from.
Print Assumptions r_sks_to_vec.
Print Assumptions r_pks_to_vec.
Print Assumptions r_sds_to_vec.
Print Assumptions r_egds_to_vec.
Print Assumptions r_sks_try_from.
Print Assumptions r_pks_try_from.
Print Assumptions r_sds_try_from.
Print Assumptions r_egds_try_from.
Print Assumptions r_sigshare_to_vec.
Print Assumptions r_sigshare_try_from.
Print Assumptions r_scct_to_vec.
Print Assumptions r_scct_try_from.
Print Assumptions r_scdk_to_vec.
Print Assumptions r_scdk_try_from.
Print Assumptions r_egdk_to_vec.
Print Assumptions r_egdk_try_from.
Print Assumptions r_tlct_to_vec.
Print Assumptions r_tlct_try_from.
Print Assumptions r_egct_to_vec.
Print Assumptions r_egct_try_from.
Print Assumptions r_egp_to_vec.
Print Assumptions r_egp_try_from.
