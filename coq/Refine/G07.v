(* Headline properties restated about the GENERATED code: multi-signatures (C07). *)
From BV Require Import Alg.Field Alg.Dlog Sem.Base Model.Oracles Model.Helpers Model.Varint Model.Core
     Model.Protocols Model.Api Theory.CoreFacts Theory.Schemes Theory.Aggregate
     Gen.Consts Gen.Funcs Refine.Prelude Refine.Tactics Refine.SigCore Refine.SigSchemes Refine.WSig Props.C07.

Section G.
  Context (K : FieldOps) (laws : FieldLaws K) (O : Oracles K) (C : Impl) (dbg : bool) (ent : nat -> bytes) (now : N).
  Notation E := (mkEnv K O C dbg ent now).

  (* MultiPublicKey::from_public_keys then MultiSignature::verify, as translated, accept the honest multi-signature *)
  Theorem generated_multi_signature_verifies (s : scheme) (sks : list (car K)) (msg : bytes) :
    s <> Aug -> sum_f K sks <> f0 K -> eta O msg (dst_of C s) <> f0 K ->
    exists mpk, gen_MultiPublicKey_from_public_keys E (map public_key sks) = Val mpk
                /\ gen_MultiSignature_verify E (mktagged s (mkpt (fmul K (eta O msg (dst_of C s)) (sum_f K sks)))) mpk msg
                   = Val (Ok tt).
  Proof.
    intros Hs Hk Hh. exists (multi_pk_from_public_keys (map public_key sks)).
    rewrite r_multi_pk_from_public_keys, r_multi_verify, (C07_complete K laws O C s sks msg Hs Hk Hh). split; reflexivity.
  Qed.

  (* a key list that sums to zero verifies nothing *)
  Theorem generated_multi_zero_sum_rejected (m : tagged) (sks : list (car K)) (msg : bytes) :
    sum_f K sks = f0 K ->
    gen_MultiSignature_verify E m (multi_pk_from_public_keys (map public_key sks)) msg <> Val (Ok tt).
  Proof.
    intros Hz Hv. rewrite r_multi_verify in Hv. injection Hv as Hv.
    exact (C07_zero_sum_key_rejected K laws O C m sks msg Hz Hv).
  Qed.
End G.

Print Assumptions generated_multi_signature_verifies.
Print Assumptions generated_multi_zero_sum_rejected.
