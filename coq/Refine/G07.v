(* Headline properties restated about the GENERATED code: multi-signatures (C07). *)
From BV Require Import Alg.Field Alg.Dlog Sem.Base Model.Oracles Model.Helpers Model.Varint Model.Core
     Model.Protocols Model.Api Theory.CoreFacts Theory.Schemes Theory.Aggregate
     Gen.Consts Gen.Funcs Refine.Prelude Refine.Tactics Refine.SigCore Refine.SigSchemes Refine.WSig Props.C07.

Section G.
  Context (K : FieldOps) (laws : FieldLaws K) (O : Oracles K) (C : Impl) (dbg : bool) (ent : nat -> bytes) (now : N).
  Notation E := (mkEnv K O C dbg ent now).

  (* MultiPublicKey::from_public_keys then MultiSignature::verify, as translated, accept the honest multi-signature *)
  Theorem generated_multi_signature_verifies (s : scheme) (sks : list (car K)) (msg : bytes) :
    s <> Aug -> sum_f K sks <> f0 K -> eta O msg (dst_of C s) <> f0 K ->
    exists mpk, gen_MultiPublicKey_from_public_keys E (map public_key sks) = Val mpk
                /\ gen_MultiSignature_verify E (mktagged s (mkpt (fmul K (eta O msg (dst_of C s)) (sum_f K sks)))) mpk msg
                   = Val (Ok tt).
  Proof.
    intros Hs Hk Hh. exists (multi_pk_from_public_keys (map public_key sks)).
    rewrite r_multi_pk_from_public_keys, r_multi_verify, (C07_complete K laws O C s sks msg Hs Hk Hh). split; reflexivity.
  Qed.

  (* a key list that sums to zero verifies nothing *)
  Theorem generated_multi_zero_sum_rejected (m : tagged) (sks : list (car K)) (msg : bytes) :
    sum_f K sks = f0 K ->
    gen_MultiSignature_verify E m (multi_pk_from_public_keys (map public_key sks)) msg <> Val (Ok tt).
  Proof.
    intros Hz Hv. rewrite r_multi_verify in Hv. injection Hv as Hv.
    exact (C07_zero_sum_key_rejected K laws O C m sks msg Hz Hv).
  Qed.
  (* C07: the translated accumulation is the plain sum; short, Aug and mixed lists are refused *)
  Theorem generated_multi_accumulation_is_sum (s0 s1 : tagged) (rest : list tagged) :
    all_scheme K (tg_scheme s0) (s1 :: rest) -> tg_scheme s0 <> Aug ->
    exists p, gen_MultiSignature_try_from E (s0 :: s1 :: rest) = Val (Ok (mktagged (tg_scheme s0) p))
              /\ dl p = dl (psum (map (@tg_pt K) (s0 :: s1 :: rest))).
  Proof.
    intros H Ha. destruct (C07_accumulation_is_sum K laws s0 s1 rest H Ha) as (p & Hp & Hd).
    exists p. rewrite r_multi_try_from, Hp. split; [reflexivity | exact Hd].
  Qed.

  Theorem generated_multi_fewer_than_two (l : list (@tagged K)) :
    (length l < 2)%nat -> gen_MultiSignature_try_from E l = Val (Err InvalidSignature).
  Proof. intros H. rewrite r_multi_try_from, (C07_fewer_than_two_refused K l H). reflexivity. Qed.

  Theorem generated_multi_aug_and_mixed_refused (s0 s1 : tagged) (rest : list tagged) :
    ~ all_scheme K (tg_scheme s0) (s1 :: rest) \/ tg_scheme s0 = Aug ->
    gen_MultiSignature_try_from E (s0 :: s1 :: rest) = Val (Err InvalidSignatureScheme).
  Proof. intros H. rewrite r_multi_try_from, (C07_aug_and_mixed_refused K s0 s1 rest H). reflexivity. Qed.

  Theorem generated_multi_key_is_sum (keys : list (pt K Gpk)) :
    exists mpk, gen_MultiPublicKey_from_public_keys E keys = Val mpk /\ dl mpk = dl (psum keys).
  Proof.
    exists (multi_pk_from_public_keys keys). rewrite r_multi_pk_from_public_keys.
    split; [reflexivity | apply (C07_accumulated_key_is_sum K laws keys)].
  Qed.

  (* C07: a multi-signature accepted by the translated verifier is accepted for that accumulated key only *)
  Theorem generated_multi_exactly_the_signer_set (s : scheme) (p : pt K Gsig) (mpk mpk' : pt K Gpk) (msg : bytes) :
    s <> Aug -> eta O msg (dst_of C s) <> f0 K ->
    gen_MultiSignature_verify E (mktagged s p) mpk msg = Val (Ok tt) ->
    gen_MultiSignature_verify E (mktagged s p) mpk' msg = Val (Ok tt) -> mpk' = mpk.
  Proof.
    intros Hs Hh. rewrite !r_multi_verify. intros H1 H2. injection H1 as H1. injection H2 as H2.
    exact (C07_exactly_the_signer_set K laws O C s p mpk mpk' msg Hs Hh H1 H2).
  Qed.
End G.

Print Assumptions generated_multi_signature_verifies.
Print Assumptions generated_multi_zero_sum_rejected.
Print Assumptions generated_multi_accumulation_is_sum.
Print Assumptions generated_multi_fewer_than_two.
Print Assumptions generated_multi_aug_and_mixed_refused.
Print Assumptions generated_multi_key_is_sum.
Print Assumptions generated_multi_exactly_the_signer_set.
