(* Generic facts used by the refinement lemmas: byte copies, the retry loop, the padding loop,
   the length-prefixed payload.  Nothing here depends on the generated code. *)
From BV Require Import Alg.Field Alg.Dlog Sem.Base Model.Oracles Model.Helpers Model.Varint Model.Core
     Model.Protocols Theory.VarintFacts Gen.Consts Refine.Prelude Refine.Tactics.

Lemma le_bytes_length n x : length (le_bytes n x) = n.
Proof. revert x; induction n as [|n IH]; intros x; cbn [le_bytes length]; [reflexivity|]. rewrite IH. reflexivity. Qed.

(* let mut bytes = vec![0u8; 8 + n]; bytes[..n].copy_from_slice(u); bytes[n..].copy_from_slice(&t.to_le_bytes()) *)
Lemma copy_two (u : bytes) (t : N) {A} (k : bytes -> M A) :
  (b <- rs_copy_range (rs_vec_zeros (8 + length u)) 0 (length u) u ;;
   b' <- rs_copy_range b (length u) (length b) (le64 t) ;; k b') = k (u ++ le64 t).
Proof.
  unfold rs_copy_range, rs_vec_zeros, repeatN.
  rewrite repeat_length, Nat.sub_0_r, Nat.eqb_refl.
  replace (Nat.leb 0 (length u)) with true by (symmetry; apply Nat.leb_le; lia).
  replace (Nat.leb (length u) (8 + length u)) with true by (symmetry; apply Nat.leb_le; lia).
  cbn [andb bind firstn app].
  assert (Hs : skipn (length u) (repeat 0 (8 + length u)) = repeat 0 8).
  { replace (8 + length u)%nat with (length u + 8)%nat by lia. rewrite repeat_app, skipn_app, repeat_length, Nat.sub_diag.
    rewrite skipn_all2 by (rewrite repeat_length; lia). reflexivity. }
  rewrite Hs. rewrite app_length, repeat_length.
  replace (Nat.leb (length u) (length u + 8)) with true by (symmetry; apply Nat.leb_le; lia).
  rewrite Nat.leb_refl. unfold le64. rewrite le_bytes_length.
  replace (length u + 8 - length u)%nat with 8%nat by lia. cbn [Nat.eqb andb bind].
  rewrite firstn_app, Nat.sub_diag, firstn_all. cbn [firstn]. rewrite app_nil_r.
  rewrite skipn_all2 by (rewrite app_length, repeat_length; lia). rewrite app_nil_r. reflexivity.
Qed.

(* ---- the length-prefixed payload: peek / try_from / bounds check / slice  versus  Varint.unframe ---- *)
Lemma leb_nat_N a b : Nat.leb (N.to_nat a) b = N.leb a (N.of_nat b).
Proof.
  destruct (Nat.leb_spec (N.to_nat a) b), (N.leb_spec a (N.of_nat b)); try reflexivity; lia.
Qed.

Lemma slice_prefix {A} (p : list A) ov : (ov <= length p)%nat -> rs_slice p 0 ov = Val (firstn ov p).
Proof.
  intros H. unfold rs_slice. cbn [Nat.leb andb skipn].
  replace (Nat.leb ov (length p)) with true by (symmetry; apply Nat.leb_le; exact H).
  rewrite Nat.sub_0_r. reflexivity.
Qed.

Lemma slice_body {A} (p : list A) ov l : (ov <= length p)%nat -> (l <= length p - ov)%nat ->
  rs_slice p ov (ov + l) = Val (firstn l (skipn ov p)).
Proof.
  intros H1 H2. unfold rs_slice.
  replace (Nat.leb ov (ov + l)) with true by (symmetry; apply Nat.leb_le; lia).
  replace (Nat.leb (ov + l) (length p)) with true by (symmetry; apply Nat.leb_le; lia).
  replace (ov + l - ov)%nat with l by lia. reflexivity.
Qed.

Lemma sc_unframe_refines p {R0} (kmsg : bytes -> M R0) (knone : M R0) :
  match peek p with
  | Some overhead =>
    sl <- rs_slice p 0 overhead ;;
    u <- rs_unwrap (varint_dec sl) ;;
    let len := N.to_nat (u mod USIZE) in
    if Nat.leb len (length p - overhead)
    then (sl5 <- rs_slice p overhead (overhead + len) ;; kmsg sl5)
    else knone
  | None => knone
  end
  = uf <- unframe false p ;; match uf with UfMsg m => kmsg m | _ => knone end.
Proof.
  unfold unframe. destruct (peek p) as [ov|] eqn:Hp; [|reflexivity].
  pose proof (peek_le_length p ov Hp) as Hle.
  rewrite slice_prefix by exact Hle. cbn [bind].
  destruct (varint_dec (firstn ov p)) as [x|]; [|reflexivity].
  cbn [rs_unwrap unwrap_option bind negb orb]. cbv zeta. rewrite andb_true_r.
  rewrite leb_nat_N.
  destruct (N.leb (x mod USIZE) (N.of_nat (length p - ov))) eqn:Hl; [|reflexivity].
  apply N.leb_le in Hl. rewrite slice_body by lia. reflexivity.
Qed.

Lemma tl_unframe_refines p {R0} (kmsg : bytes -> M R0) (krange knop : M R0) :
  match peek p with
  | Some overhead =>
    sl <- rs_slice p 0 overhead ;;
    u <- rs_unwrap (varint_dec sl) ;;
    let len := N.to_nat (u mod USIZE) in
    c <- (if Nat.leb len (length p - overhead)
          then (sl7 <- rs_slice p 0 overhead ;; Val (bytes_eqb_v (varint_enc (N.of_nat len)) sl7))
          else Val false) ;;
    if c then (sl10 <- rs_slice p overhead (overhead + len) ;; kmsg sl10) else krange
  | None => knop
  end
  = uf <- unframe true p ;; match uf with UfMsg m => kmsg m | UfRange => krange | UfNoPrefix => knop end.
Proof.
  unfold unframe. destruct (peek p) as [ov|] eqn:Hp; [|reflexivity].
  pose proof (peek_le_length p ov Hp) as Hle.
  rewrite slice_prefix by exact Hle. cbn [bind].
  destruct (varint_dec (firstn ov p)) as [x|]; [|reflexivity].
  cbn [rs_unwrap unwrap_option bind negb orb]. cbv zeta.
  rewrite leb_nat_N, N2Nat.id.
  destruct (N.leb (x mod USIZE) (N.of_nat (length p - ov))) eqn:Hl; [|reflexivity].
  cbn [bind andb].
  destruct (bytes_eqb_v (varint_enc (x mod USIZE)) (firstn ov p)); [|reflexivity].
  apply N.leb_le in Hl. rewrite slice_body by lia. reflexivity.
Qed.

Ltac r_consts :=
  change sign_crypt__BlsSignCrypt__seal__SALT with SALT_SIGNCRYPT;
  change sig_proof__SALT with SALT_POK;
  change time_crypt__SALT with SALT_TIMELOCK;
  change elgamal__SALT with SALT_ELGAMAL;
  change helpers__KEYGEN_SALT with KEYGEN_SALT.

Section Loops.
  Context {K : FieldOps} (O : Oracles K) (ent : nat -> bytes).
  Notation F := (car K).

  (* let mut x = random(get_crypto_rng()); while x.is_zero() { x = random(get_crypto_rng()) } *)
  Lemma draw_loop_refines (R0 : Type) body (k : nat * F -> M R0) :
    (forall w x, body (w, x) = let '(r, w) := world_rng ent w in
                               let '(x, r) := rng_random O r in Val (Next (w, x))) ->
    forall fuel w x,
      rs_while_fuel (S fuel) (w, x) (fun '(w, x) => is_zero_s x) body k
      = if is_zero_s x then ('(x', w') <- draw_nonzero_scalar O ent fuel w ;; k (w', x')) else k (w, x).
  Proof.
    intros Hb. induction fuel as [|f IH]; intros w x.
    - cbn [rs_while_fuel]. destruct (is_zero_s x); [|reflexivity]. rewrite Hb. reflexivity.
    - cbn [rs_while_fuel] in *. destruct (is_zero_s x); [|reflexivity]. rewrite Hb.
      cbn [world_rng rng_random fst snd bind draw_nonzero_scalar].
      rewrite IH. destruct (is_zero_s (rng_scalar O (ent w) 0)); reflexivity.
  Qed.

  Lemma first_draw_refines (R0 : Type) body (k : nat * F -> M R0) w :
    (forall w x, body (w, x) = let '(r, w) := world_rng ent w in
                               let '(x, r) := rng_random O r in Val (Next (w, x))) ->
    (let '(r, w1) := world_rng ent w in
     let '(x, r) := rng_random O r in
     rs_while (w1, x) (fun '(w, x) => is_zero_s x) body k)
    = '(x', w') <- draw_nonzero_scalar O ent RETRY_FUEL w ;; k (w', x').
  Proof.
    intros Hb. cbn [world_rng rng_random fst snd]. unfold rs_while, WHILE_FUEL, RETRY_FUEL.
    rewrite (draw_loop_refines R0 body k Hb). cbn [draw_nonzero_scalar].
    destruct (is_zero_s (rng_scalar O (ent w) 0)); reflexivity.
  Qed.

  (* while overhead_bytes.len() < 32 { overhead_bytes.push(0u8) } *)
  Lemma pad_loop_fuel (R0 : Type) (k : bytes -> M R0) : forall n fuel b,
    (32 - length b = n)%nat -> (n < fuel)%nat ->
    rs_while_fuel fuel b (fun b => Nat.ltb (length b) 32) (fun b => Val (Next (b ++ [0]))) k
    = k (b ++ repeatN 0 n).
  Proof.
    induction n as [|n IH]; intros fuel b Hn Hf; (destruct fuel as [|fuel]; [lia|]); cbn [rs_while_fuel].
    - replace (Nat.ltb (length b) 32) with false by (symmetry; apply Nat.ltb_ge; lia).
      cbn [repeatN repeat]. rewrite app_nil_r. reflexivity.
    - replace (Nat.ltb (length b) 32) with true by (symmetry; apply Nat.ltb_lt; lia).
      cbn [bind]. rewrite IH by (rewrite ?app_length; cbn [length]; lia).
      rewrite <- app_assoc. reflexivity.
  Qed.

  Lemma pad_loop (R0 : Type) (k : bytes -> M R0) msg :
    rs_while (varint_enc (N.of_nat (length msg)) ++ msg)
      (fun b => rs_ltb (length b) (rs_num 32%N)) (fun b => Val (Next (b ++ [0%N]))) k
    = k (frame msg).
  Proof.
    unfold rs_while, WHILE_FUEL, frame. cbv zeta.
    apply (pad_loop_fuel R0 k (32 - length (varint_enc (N.of_nat (length msg)) ++ msg))); lia.
  Qed.

End Loops.
