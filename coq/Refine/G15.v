(* A headline property restated about the GENERATED code (coq/Gen/Funcs.v, produced from /repo/src by rs2v on
   every run): `impl From<&T> for Vec<u8>` followed by `impl TryFrom<&[u8]> for T`, both as translated, gives the
   value back - the round-trip theorems of Props/C15 transported along the refinement lemmas. *)
From BV Require Import Alg.Field Alg.Dlog Sem.Base Model.Oracles Model.Helpers Model.Varint Model.Core
     Model.Protocols Model.Api Model.Codec Gen.Consts Gen.Funcs Refine.Prelude Refine.PreludeCodec Refine.Tactics
     Refine.WSig Refine.WCodec Refine.WEnum Props.C15.
From Coq Require Import NArith.
Local Open Scope N_scope.

Section G.
  Context (K : FieldOps) (O : Oracles K) (C : Impl) (dbg : bool) (ent : nat -> bytes) (now : N).
  Context (OL : OracleLaws K O (SIG_LEN C) (PK_LEN C)).
  Notation E := (mkEnv K O C dbg ent now).

  Tactic Notation "rt" uconstr(to_vec) uconstr(try_from) uconstr(thm) :=
    eexists; split; [apply to_vec | rewrite try_from; rewrite thm by assumption; reflexivity].

  Theorem generated_public_key_round_trip (p : pt K Gpk) :
    exists b, gen_PublicKey_to_vec_bytes E p = Val b /\ gen_PublicKey_try_from_bytes E b = Val (Ok p).
  Proof. rt r_pk_to_vec (r_pk_try_from O C dbg ent now OL) (C15_public_key K O C OL). Qed.

  Theorem generated_proof_of_possession_round_trip (p : pt K Gsig) :
    exists b, gen_ProofOfPossession_to_vec_bytes E p = Val b /\ gen_ProofOfPossession_try_from_bytes E b = Val (Ok p).
  Proof. rt r_pop_to_vec (r_pop_try_from O C dbg ent now OL) (C15_proof_of_possession K O C OL). Qed.

  Theorem generated_secret_key_round_trip (s : car K) :
    s <> f0 K ->
    exists b, gen_SecretKey_to_vec_bytes E s = Val b /\ gen_SecretKey_try_from_bytes E b = Val (Ok s).
  Proof. intros Hs. rt r_sk_to_vec r_sk_try_from (C15_secret_key K O C OL). Qed.

  Theorem generated_signature_round_trip (t : tagged) :
    exists b, gen_Signature_to_vec_bytes E t = Val b /\ gen_Signature_try_from_bytes E b = Val (Ok t).
  Proof. rt r_signature_to_vec r_signature_try_from (C15_signature K O C OL). Qed.

  Theorem generated_proof_commitment_round_trip (t : tagged) :
    exists b, gen_ProofCommitment_to_vec_bytes E t = Val b /\ gen_ProofCommitment_try_from_bytes E b = Val (Ok t).
  Proof. rt r_commitment_to_vec (r_commitment_try_from O C dbg ent now OL) (C15_proof_commitment K O C OL). Qed.

  Theorem generated_proof_of_knowledge_round_trip (p : pok) :
    exists b, gen_ProofOfKnowledge_to_vec_bytes E p = Val b /\ gen_ProofOfKnowledge_try_from_bytes E b = Val (Ok p).
  Proof. rt r_pok_to_vec r_pok_try_from (C15_proof_of_knowledge K O C OL). Qed.

  Theorem generated_proof_of_knowledge_timestamp_round_trip (p : pok_ts) :
    pts_timestamp p < 2 ^ 64 ->
    exists b, gen_ProofOfKnowledgeTimestamp_to_vec_bytes E p = Val b
              /\ gen_ProofOfKnowledgeTimestamp_try_from_bytes E b = Val (Ok p).
  Proof. intros Ht. rt r_pokts_to_vec r_pokts_try_from (C15_proof_of_knowledge_timestamp K O C OL). Qed.

  Theorem generated_sign_crypt_ciphertext_round_trip (ct : sc_ct) :
    N.of_nat (length (sc_v ct)) < 2 ^ 64 -> wfb (sc_v ct) ->
    exists b, gen_SignCryptCiphertext_to_vec_bytes E ct = Val b
              /\ gen_SignCryptCiphertext_try_from_bytes E b = Val (Ok ct).
  Proof. intros Hl Hw. rt r_scct_to_vec r_scct_try_from (C15_sign_crypt_ciphertext K O C OL). Qed.

  Theorem generated_time_crypt_ciphertext_round_trip (ct : tl_ct) :
    length (tl_v ct) = 32%nat -> wfb (tl_v ct) -> N.of_nat (length (tl_w ct)) < 2 ^ 64 -> wfb (tl_w ct) ->
    exists b, gen_TimeCryptCiphertext_to_vec_bytes E ct = Val b
              /\ gen_TimeCryptCiphertext_try_from_bytes E b = Val (Ok ct).
  Proof. intros H1 H2 H3 H4. rt r_tlct_to_vec r_tlct_try_from (C15_time_crypt_ciphertext K O C OL). Qed.

  Theorem generated_elgamal_ciphertext_round_trip (ct : eg_ct) :
    exists b, gen_ElGamalCiphertext_to_vec_bytes E ct = Val b /\ gen_ElGamalCiphertext_try_from_bytes E b = Val (Ok ct).
  Proof. rt r_egct_to_vec r_egct_try_from (C15_elgamal_ciphertext K O C OL). Qed.

  Theorem generated_elgamal_proof_round_trip (p : eg_proof) :
    exists b, gen_ElGamalProof_to_vec_bytes E p = Val b /\ gen_ElGamalProof_try_from_bytes E b = Val (Ok p).
  Proof. rt r_egp_to_vec r_egp_try_from (C15_elgamal_proof K O C OL). Qed.

  Theorem generated_secret_key_enum_round_trip (c : curve) (s : car K) :
    s <> f0 K ->
    exists b, gen_SecretKeyEnum_to_vec_bytes E (c, s) = Val b /\ gen_SecretKeyEnum_try_from_bytes E b = Val (Ok (c, s)).
  Proof. intros Hs. rt r_skenum_to_vec r_skenum_try_from (C15_secret_key_enum K O C OL). Qed.

  Theorem generated_signature_share_round_trip (t : tagged_share) :
    sid (ts_share t) < 256 -> length (sval (ts_share t)) = SIG_LEN C -> wfb (sval (ts_share t)) ->
    exists b, gen_SignatureShare_to_vec_bytes E t = Val b /\ gen_SignatureShare_try_from_bytes E b = Val (Ok t).
  Proof. intros H1 H2 H3. rt r_sigshare_to_vec r_sigshare_try_from (C15_signature_share C). Qed.
End G.

Print Assumptions generated_public_key_round_trip.
Print Assumptions generated_proof_of_possession_round_trip.
Print Assumptions generated_secret_key_round_trip.
Print Assumptions generated_signature_round_trip.
Print Assumptions generated_proof_commitment_round_trip.
Print Assumptions generated_proof_of_knowledge_round_trip.
Print Assumptions generated_proof_of_knowledge_timestamp_round_trip.
Print Assumptions generated_sign_crypt_ciphertext_round_trip.
Print Assumptions generated_time_crypt_ciphertext_round_trip.
Print Assumptions generated_elgamal_ciphertext_round_trip.
Print Assumptions generated_elgamal_proof_round_trip.
Print Assumptions generated_secret_key_enum_round_trip.
Print Assumptions generated_signature_share_round_trip.
