(* Headline properties restated about the GENERATED code (coq/Gen/Funcs.v, produced from /repo/src by rs2v on
   every run): the property theorems of Props transported along the refinement lemmas. *)
From BV Require Import Alg.Field Alg.Dlog Sem.Base Model.Oracles Model.Helpers Model.Varint Model.Core
     Model.Protocols Model.Api Theory.CoreFacts Theory.Schemes Gen.Consts Gen.Funcs Refine.Prelude Refine.Tactics
     Refine.SigCore Refine.SigSchemes Refine.WSig Props.C02.

Section G.
  Context (K : FieldOps) (laws : FieldLaws K) (O : Oracles K) (C : Impl) (dbg : bool) (ent : nat -> bytes) (now : N).
  Notation E := (mkEnv K O C dbg ent now).

  (* C02: Signature::verify as translated accepts exactly the guarded CoreVerify equation *)
  Theorem generated_verify_exact (sg : tagged) (pk : pt K Gpk) (msg : bytes) :
    gen_Signature_verify E sg pk msg = Val (Ok tt)
    <-> dl (tg_pt sg) <> f0 K /\ dl pk <> f0 K
        /\ dl (tg_pt sg) = fmul K (dl pk) (Hs K O C (tg_scheme sg) pk msg).
  Proof.
    rewrite r_sig_verify. rewrite <- (C02_verify_exact K laws O C sg pk msg).
    split; [intros H; injection H as H; exact H | intros H; rewrite H; reflexivity].
  Qed.

  (* at most one group element is accepted for (pk, msg, scheme) *)
  Theorem generated_verify_unique (s : scheme) (p1 p2 : pt K Gsig) (pk : pt K Gpk) (msg : bytes) :
    gen_Signature_verify E (mktagged s p1) pk msg = Val (Ok tt) ->
    gen_Signature_verify E (mktagged s p2) pk msg = Val (Ok tt) -> dl p1 = dl p2.
  Proof.
    intros H1 H2. apply generated_verify_exact in H1. apply generated_verify_exact in H2.
    cbn [tg_pt tg_scheme] in *. destruct H1 as (_ & _ & E1), H2 as (_ & _ & E2). congruence.
  Qed.
  (* C02: what the translated verifier accepts under sk's public key is what the translated signer produces *)
  Theorem generated_accepted_is_honest (sk : car K) (s : scheme) (p : pt K Gsig) (msg : bytes) :
    gen_Signature_verify E (mktagged s p) (public_key sk) msg = Val (Ok tt) ->
    gen_SecretKey_sign E sk s msg = Val (Ok (mktagged s p)).
  Proof.
    rewrite r_sig_verify, r_sk_sign. intros H. injection H as H.
    rewrite (C02_accepted_is_honest K laws O C sk s p msg H). reflexivity.
  Qed.

  (* C02: any other group element is rejected *)
  Theorem generated_other_point_rejected (sk : car K) (s : scheme) (sg : tagged) (p' : pt K Gsig) (msg : bytes) :
    gen_SecretKey_sign E sk s msg = Val (Ok sg) -> p' <> tg_pt sg ->
    gen_Signature_verify E (mktagged s p') (public_key sk) msg <> Val (Ok tt).
  Proof.
    rewrite r_sig_verify, r_sk_sign. intros Hs Hne Hv. injection Hs as Hs. injection Hv as Hv.
    exact (C02_other_point_rejected K laws O C sk s sg p' msg Hs Hne Hv).
  Qed.

  (* C02: Basic / PoP - no other public key accepts the signature *)
  Theorem generated_other_key_rejected (sk : car K) (s : scheme) (sg : tagged) (pk' : pt K Gpk) (msg : bytes) :
    s <> Aug -> Hs K O C s (public_key sk) msg <> f0 K ->
    gen_SecretKey_sign E sk s msg = Val (Ok sg) ->
    gen_Signature_verify E sg pk' msg = Val (Ok tt) -> pk' = public_key sk.
  Proof.
    intros Ha Hh. rewrite r_sig_verify, r_sk_sign. intros Hs Hv. injection Hs as Hs. injection Hv as Hv.
    exact (C02_other_key_rejected K laws O C sk s sg pk' msg Ha Hh Hs Hv).
  Qed.
End G.

Print Assumptions generated_verify_exact.
Print Assumptions generated_verify_unique.
Print Assumptions generated_accepted_is_honest.
Print Assumptions generated_other_point_rejected.
Print Assumptions generated_other_key_rejected.
