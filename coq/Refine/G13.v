(* A headline property restated about the GENERATED code (coq/Gen/Funcs.v, produced from /repo/src by rs2v on
   every run): the property theorem of Props transported along the refinement lemmas. *)
From BV Require Import Alg.Field Alg.Dlog Sem.Base Model.Oracles Model.Helpers Model.Varint Model.Core
     Model.Protocols Model.Api Theory.CoreFacts Theory.Schemes Theory.TimeLock Gen.Consts Gen.Funcs Refine.Prelude Refine.Tactics
     Refine.SigCore Refine.SigSchemes Refine.SignCrypt Refine.TimeLock Refine.ElGamal Refine.WEnc Refine.WSig Props.C13.

Section G.
  Context (K : FieldOps) (laws : FieldLaws K) (O : Oracles K) (C : Impl) (dbg : bool) (ent : nat -> bytes) (now : N).
  Notation E := (mkEnv K O C dbg ent now).

  (* C13: PublicKey::encrypt_time_lock, SecretKey::sign over the identifier, TimeCryptCiphertext::decrypt *)
  Theorem generated_time_lock_round_trip (OL : OracleLaws K O (SIG_LEN C) (PK_LEN C))
          (sk : car K) (s : scheme) (msg id : bytes) (w0 : nat) :
    let pk := public_key sk in
    N.of_nat (length msg) < 2 ^ 64 -> sk <> f0 K -> Hs K O C s pk id <> f0 K ->
    tl_side_conditions K O dbg pk msg (amsg K O s pk id) (dst_of C s) (ent w0) ->
    exists ct sg, gen_PublicKey_encrypt_time_lock E pk s msg id w0 = Val (Ok ct, S w0)
                  /\ gen_SecretKey_sign E sk s id = Val (Ok sg)
                  /\ gen_TimeCryptCiphertext_decrypt E ct sg = Val (Some msg).
  Proof.
    intros pk Hl Hk Hh Hc.
    destruct (C13_round_trip_api K laws O C OL dbg ent sk s msg id w0 Hl Hk Hh Hc) as (ct & sg & H1 & H2 & H3).
    exists ct, sg. rewrite r_pk_encrypt_time_lock, r_sk_sign, r_tlct_decrypt, H2. repeat split; assumption.
  Qed.
  (* C13, soundness of opening: whatever the translated BlsTimeCrypt::unseal returns was sealed - the flag was set, no
     identity entered, and U is the commitment of the recovered alpha and the returned message *)
  Theorem generated_time_lock_open_sound (OL : OracleLaws K O (SIG_LEN C) (PK_LEN C))
          (u : pt K Gpk) (v : list N) (w : bytes) (sig : pt K Gsig) (valid : bool) (m' : bytes) :
    length v = 32%nat ->
    gen_BlsTimeCrypt_unseal E u v w sig valid = Val (Some m') ->
    valid = true /\ dl sig <> f0 K /\ dl u <> f0 K /\ dl u = r_tl K O (recovered_alpha K O u v sig) m'.
  Proof. intros Hl. rewrite r_tl_unseal. apply (C13_open_sound K laws O C OL dbg u v w sig valid m' Hl). Qed.
End G.

Print Assumptions generated_time_lock_round_trip.
Print Assumptions generated_time_lock_open_sound.
