(* Tie #1 (translator), function bodies: src/traits/{sig_basic,sig_aug,sig_pop,sig_multi,pk_multi}.rs *)
From BV Require Import Alg.Field Alg.Dlog Sem.Base Model.Oracles Model.Helpers Model.Varint Model.Core
     Model.Protocols Theory.VarintFacts Gen.Consts Gen.Funcs Refine.Prelude Refine.Tactics Refine.SigCore.

Section R.
  Context {K : FieldOps} (O : Oracles K) (C : Impl) (dbg : bool) (ent : nat -> bytes) (now : N).
  Notation E := (mkEnv K O C dbg ent now).
  Notation F := (car K).

  (* ---- sig_basic.rs ---- *)
  Lemma r_basic_partial_sign sks msg :
    gen_BlsSignatureBasic_partial_sign E sks msg = Val (basic_partial_sign O C sks msg).
  Proof. unfold gen_BlsSignatureBasic_partial_sign, basic_partial_sign. r_auto. Qed.
  Lemma r_basic_partial_verify pks sig msg :
    gen_BlsSignatureBasic_partial_verify E pks sig msg = Val (basic_partial_verify O C pks sig msg).
  Proof. unfold gen_BlsSignatureBasic_partial_verify, basic_partial_verify. r_auto. Qed.
  Lemma r_basic_sign sk msg : gen_BlsSignatureBasic_sign E sk msg = Val (basic_sign O C sk msg).
  Proof. unfold gen_BlsSignatureBasic_sign, basic_sign. r_auto. Qed.
  Lemma r_basic_verify pk sig msg : gen_BlsSignatureBasic_verify E pk sig msg = Val (basic_verify O C pk sig msg).
  Proof. unfold gen_BlsSignatureBasic_verify, basic_verify. r_auto. Qed.

  Lemma hm_get_existsb (set : hmap) m :
    match hm_get set m with Some _ => true | None => false end = existsb (bytes_eqb m) (map fst set).
  Proof.
    induction set as [|[k v] set IH]; cbn [hm_get map fst existsb]; [reflexivity|].
    destruct (bytes_eqb m k); [reflexivity|exact IH].
  Qed.

  Fixpoint hm_final (n : nat) (l : list (pt K Gpk * bytes)) (set : hmap) : hmap :=
    match l with [] => set | (_, m) :: l' => hm_final (S n) l' ((m, n) :: set) end.

  Lemma dup_loop_refines (R0 : Type) l body :
    (forall inputs set i pk m, body (inputs, set) (i, (pk, m)) =
       let '(old, set') := hm_insert set m i in
       match old with
       | Some _ => Val (Ret (Err InvalidInputs))
       | None => Val (Next (inputs ++ [(pk, m)], set'))
       end) ->
    forall n inputs set (k : list (pt K Gpk * bytes) * hmap -> M (res R0)),
    rs_for (rs_enumerate_from n l) (inputs, set) body k
    = if dup_scan (map fst set) l then Val (Err InvalidInputs) else k (inputs ++ l, hm_final n l set).
  Proof.
    intros Hb. induction l as [|[pk m] l IH]; intros n inputs set k;
      cbn [rs_enumerate_from rs_for dup_scan hm_final].
    - rewrite app_nil_r. reflexivity.
    - rewrite Hb. unfold hm_insert. rewrite <- hm_get_existsb.
      destruct (hm_get set m); cbn [bind orb]; [reflexivity|].
      rewrite IH. cbn [map fst]. rewrite <- app_assoc. reflexivity.
  Qed.

  Lemma map_pair_id {A B} (l : list (A * B)) : map (fun '(a, b) => (a, b)) l = l.
  Proof. induction l as [|[a b] l IH]; cbn [map]; [reflexivity|]. rewrite IH. reflexivity. Qed.

  Lemma r_basic_aggregate_verify pks sig :
    gen_BlsSignatureBasic_aggregate_verify E pks sig = basic_aggregate_verify O C dbg pks sig.
  Proof.
    unfold gen_BlsSignatureBasic_aggregate_verify, basic_aggregate_verify, rs_enumerate.
    erewrite dup_loop_refines by (intros; reflexivity). cbn [map].
    destruct (dup_scan [] pks); [reflexivity|]. cbn [app].
    rewrite map_pair_id, r_core_aggregate_verify. apply bind_ret.
  Qed.

  (* ---- sig_aug.rs ---- *)
  Lemma r_pk_bytes pk n : gen_BlsSignatureMessageAugmentation_pk_bytes E pk n = Val (pk_bytes O pk).
  Proof. reflexivity. Qed.
  Hint Rewrite r_pk_bytes : rfn.
  Lemma r_aug_sign sk msg : gen_BlsSignatureMessageAugmentation_sign E sk msg = Val (aug_sign O C sk msg).
  Proof. unfold gen_BlsSignatureMessageAugmentation_sign, aug_sign. r_auto. Qed.
  Lemma r_aug_verify pk sig msg :
    gen_BlsSignatureMessageAugmentation_verify E pk sig msg = Val (aug_verify O C pk sig msg).
  Proof. unfold gen_BlsSignatureMessageAugmentation_verify, aug_verify. r_auto. Qed.
  Lemma r_aug_aggregate_verify pks sig :
    gen_BlsSignatureMessageAugmentation_aggregate_verify E pks sig = aug_aggregate_verify O C dbg pks sig.
  Proof.
    unfold gen_BlsSignatureMessageAugmentation_aggregate_verify, aug_aggregate_verify.
    rewrite (mapM_ext _ (fun pm => (fst pm, pk_bytes O (fst pm) ++ snd pm))) by (intros [pk m]; reflexivity).
    cbn [bind]. rewrite r_core_aggregate_verify. apply bind_ret.
  Qed.

  (* ---- sig_pop.rs ---- *)
  Lemma r_pop_partial_sign sks msg :
    gen_BlsSignaturePop_partial_sign E sks msg = Val (pop_partial_sign O C sks msg).
  Proof. unfold gen_BlsSignaturePop_partial_sign, pop_partial_sign. r_auto. Qed.
  Lemma r_pop_partial_verify pks sig msg :
    gen_BlsSignaturePop_partial_verify E pks sig msg = Val (pop_partial_verify O C pks sig msg).
  Proof. unfold gen_BlsSignaturePop_partial_verify, pop_partial_verify. r_auto. Qed.
  Lemma r_pop_sign sk msg : gen_BlsSignaturePop_sign E sk msg = Val (pop_sign O C sk msg).
  Proof. unfold gen_BlsSignaturePop_sign, pop_sign. r_auto. Qed.
  Lemma r_pop_verify_sig pk sig msg : gen_BlsSignaturePop_verify E pk sig msg = Val (pop_verify_sig O C pk sig msg).
  Proof. unfold gen_BlsSignaturePop_verify, pop_verify_sig. r_auto. Qed.
  Lemma r_pop_multi_sig_verify pks sig msg :
    gen_BlsSignaturePop_multi_sig_verify E pks sig msg = Val (pop_multi_sig_verify O C pks sig msg).
  Proof. unfold gen_BlsSignaturePop_multi_sig_verify, pop_multi_sig_verify. r_auto. Qed.
  Lemma r_pop_aggregate_verify pks sig :
    gen_BlsSignaturePop_aggregate_verify E pks sig = pop_aggregate_verify O C dbg pks sig.
  Proof. unfold gen_BlsSignaturePop_aggregate_verify, pop_aggregate_verify.
    rewrite r_core_aggregate_verify. apply bind_ret. Qed.
  Lemma r_pop_prove sk : gen_BlsSignaturePop_pop_prove E sk = Val (pop_prove O C sk).
  Proof. unfold gen_BlsSignaturePop_pop_prove, pop_prove. r_auto. Qed.
  Lemma r_pop_verify pk sig : gen_BlsSignaturePop_pop_verify E pk sig = Val (pop_verify O C pk sig).
  Proof. unfold gen_BlsSignaturePop_pop_verify, pop_verify. r_auto. Qed.

  (* ---- sig_multi.rs, pk_multi.rs ---- *)
  Lemma r_multi_from_signatures sigs :
    gen_BlsMultiSignature_from_signatures E sigs = Val (multi_from_signatures sigs).
  Proof. unfold gen_BlsMultiSignature_from_signatures, multi_from_signatures. r_norm.
    rewrite (rs_for_pure sigs (fun r s => padd r s)). reflexivity. Qed.
  Lemma r_multi_from_public_keys keys :
    gen_BlsMultiKey_from_public_keys E keys = Val (multi_from_public_keys keys).
  Proof. unfold gen_BlsMultiKey_from_public_keys, multi_from_public_keys. r_norm.
    rewrite (rs_for_pure keys (fun r s => padd r s)). reflexivity. Qed.
End R.
#[global] Hint Rewrite @r_pk_bytes : rfn.
#[global] Hint Rewrite @r_basic_partial_sign : rfn.
#[global] Hint Rewrite @r_basic_partial_verify : rfn.
#[global] Hint Rewrite @r_basic_sign : rfn.
#[global] Hint Rewrite @r_basic_verify : rfn.
#[global] Hint Rewrite @r_basic_aggregate_verify : rfn.
#[global] Hint Rewrite @r_aug_sign : rfn.
#[global] Hint Rewrite @r_aug_verify : rfn.
#[global] Hint Rewrite @r_aug_aggregate_verify : rfn.
#[global] Hint Rewrite @r_pop_partial_sign : rfn.
#[global] Hint Rewrite @r_pop_partial_verify : rfn.
#[global] Hint Rewrite @r_pop_sign : rfn.
#[global] Hint Rewrite @r_pop_verify_sig : rfn.
#[global] Hint Rewrite @r_pop_multi_sig_verify : rfn.
#[global] Hint Rewrite @r_pop_aggregate_verify : rfn.
#[global] Hint Rewrite @r_pop_prove : rfn.
#[global] Hint Rewrite @r_pop_verify : rfn.
#[global] Hint Rewrite @r_multi_from_signatures : rfn.
#[global] Hint Rewrite @r_multi_from_public_keys : rfn.
Print Assumptions r_basic_partial_sign.
Print Assumptions r_basic_partial_verify.
Print Assumptions r_basic_sign.
Print Assumptions r_basic_verify.
Print Assumptions r_basic_aggregate_verify.
Print Assumptions r_pk_bytes.
Print Assumptions r_aug_sign.
Print Assumptions r_aug_verify.
Print Assumptions r_aug_aggregate_verify.
Print Assumptions r_pop_partial_sign.
Print Assumptions r_pop_partial_verify.
Print Assumptions r_pop_sign.
Print Assumptions r_pop_verify_sig.
Print Assumptions r_pop_multi_sig_verify.
Print Assumptions r_pop_aggregate_verify.
Print Assumptions r_pop_prove.
Print Assumptions r_pop_verify.
Print Assumptions r_multi_from_signatures.
Print Assumptions r_multi_from_public_keys.
