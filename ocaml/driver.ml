(* Driver for the extracted model: reads cases (same language as the Rust side), evaluates
   the extracted Gallina functions over Z mod r, answers oracle calls by asking the
   reference oracle server over a pipe, prints one canonical result line per case. *)
type str = string
module Str_ = String
open Model
module String = Str_

(* ---------- conversions between OCaml ints/strings and the extracted numerals ---------- *)
let rec pos_of_int n =
  if n = 1 then XH else if n land 1 = 0 then XO (pos_of_int (n lsr 1)) else XI (pos_of_int (n lsr 1))
let n_of_int i = if i = 0 then N0 else Npos (pos_of_int i)
let rec int_of_pos = function XH -> 1 | XO p -> 2 * int_of_pos p | XI p -> 2 * int_of_pos p + 1
let int_of_n = function N0 -> 0 | Npos p -> int_of_pos p
let nat_of_int n = let rec go k acc = if k = 0 then acc else go (k - 1) (S acc) in go n O
let int_of_nat n = let rec go n acc = match n with O -> acc | S m -> go m (acc + 1) in go n 0

let hexdig c = match c with
  | '0'..'9' -> Char.code c - 48 | 'a'..'f' -> Char.code c - 87 | 'A'..'F' -> Char.code c - 55
  | _ -> failwith "hex"
let bytes_of_hex (s : str) : bytes =
  if s = "-" then [] else begin
    let n = String.length s / 2 in
    List.init n (fun i -> n_of_int (16 * hexdig s.[2*i] + hexdig s.[2*i+1]))
  end
let hex_of_bytes (b : bytes) : str =
  String.concat "" (List.map (fun x -> Printf.sprintf "%02x" (int_of_n x)) b)
let hex_or_dash b = if b = [] then "-" else hex_of_bytes b

(* big-endian hex <-> Z, through the extracted arithmetic *)
let z_of_hex (s : str) : z =
  let s = if String.length s mod 2 = 1 then "0" ^ s else s in
  let acc = ref Z0 in
  String.iter (fun c -> acc := Z.add (Z.mul !acc (Zpos (pos_of_int 16))) (let d = hexdig c in if d = 0 then Z0 else Zpos (pos_of_int d))) s;
  !acc
let hex_of_z (a : z) : str = hex_of_bytes (List.rev (zr_repr a))

let car_of_z (a : z) : car = Obj.magic a
let z_of_car (a : car) : z = Obj.magic a

(* ---------- oracle client ---------- *)
let oracle_cmd = ref ""
let chans : (in_channel * out_channel) option ref = ref None
let cache : (str, str) Hashtbl.t = Hashtbl.create 4096
let oracle_queries = ref 0
let ask (q : str) : str =
  match Hashtbl.find_opt cache q with
  | Some a -> a
  | None ->
    let (ic, oc) = match !chans with
      | Some c -> c
      | None -> let c = Unix.open_process !oracle_cmd in chans := Some c; c in
    incr oracle_queries;
    output_string oc q; output_char oc '\n'; flush oc;
    let a = input_line ic in
    Hashtbl.replace cache q a; a

exception Unknown_dlog

let mk_oracles (g1 : bool) : oracles =
  let gs = if g1 then "g1" else "g2" and gp = if g1 then "g2" else "g1" in
  let sc q = car_of_z (z_of_hex (ask q)) in
  let dec g b = match ask ("dec " ^ g ^ " " ^ hex_or_dash b) with
    | "none" -> None | "unknown" -> raise Unknown_dlog | h -> Some (car_of_z (z_of_hex h)) in
  { eta = (fun m d -> sc ("eta " ^ hex_or_dash m ^ " " ^ hex_or_dash d));
    eta_pk = (fun m d -> sc ("eta " ^ hex_or_dash m ^ " " ^ hex_or_dash d));
    hkdf_extract = (fun s i -> bytes_of_hex (ask ("hkdfx " ^ hex_or_dash s ^ " " ^ hex_or_dash i)));
    hkdf_expand = (fun p i l -> bytes_of_hex (ask (Printf.sprintf "hkdfe %s %s %d" (hex_or_dash p) (hex_or_dash i) (int_of_nat l))));
    from_okm = (fun b -> sc ("okm " ^ hex_or_dash b));
    enc_sig = (fun a -> bytes_of_hex (ask ("enc " ^ gs ^ " " ^ hex_of_z (z_of_car a))));
    enc_pk = (fun a -> bytes_of_hex (ask ("enc " ^ gp ^ " " ^ hex_of_z (z_of_car a))));
    enc_gt = (fun a -> bytes_of_hex (ask ("enc gt " ^ hex_of_z (z_of_car a))));
    dec_sig = dec gs;
    dec_pk = dec gp;
    repr = (fun a -> zr_repr (z_of_car a));
    unrepr = (fun b -> match zr_unrepr b with None -> None | Some v -> Some (car_of_z v));
    of_u64 = (fun x -> car_of_z (zr_of_u64 x));
    sdec = (fun b -> match zr_sdec b with None -> None | Some v -> Some (car_of_z v));
    xof = (fun s l -> bytes_of_hex (ask (Printf.sprintf "xof %s %d" (hex_or_dash s) (int_of_nat l))));
    sha = (fun s -> bytes_of_hex (ask ("sha " ^ hex_or_dash s)));
    fs = (fun p items c ->
        let its = String.concat " " (List.map (fun (l, m) -> hex_or_dash l ^ " " ^ hex_or_dash m) items) in
        sc (Printf.sprintf "fs %s %d %s %s" (hex_or_dash p) (List.length items) its (hex_or_dash c)));
    rng_bytes32 = (fun s -> bytes_of_hex (ask ("rngb " ^ hex_or_dash s)));
    rng_scalar = (fun s k -> sc (Printf.sprintf "rngs %s %d" (hex_or_dash s) (int_of_nat k))) }

(* ---------- tokens ---------- *)
type tok =
  | TBytes of bytes | TScalar of z | TNum of str | TP of z | TQ of z | TScheme of scheme
  | TShare of share | TList of tok list | TNone | TSome of tok | TWord of str

let rec parse_one (ws : str list) : tok * str list =
  match ws with
  | [] -> failwith "token expected"
  | "[" :: rest ->
    let rec go acc ws = match ws with
      | "]" :: rest -> (TList (List.rev acc), rest)
      | _ -> let (t, rest) = parse_one ws in go (t :: acc) rest in
    go [] rest
  | "?" :: rest -> (TNone, rest)
  | w :: rest ->
    let k = w.[0] and body = String.sub w 1 (String.length w - 1) in
    let t = match k with
      | 'x' -> TBytes (bytes_of_hex (if body = "" then "-" else body))
      | 's' -> TScalar (z_of_hex body)
      | 'n' -> TNum body
      | 'p' -> TP (z_of_hex body)
      | 'q' -> TQ (z_of_hex body)
      | 'c' -> TScheme (match body with "basic" -> Basic | "aug" -> Aug | "pop" -> Pop | _ -> failwith "scheme")
      | 'h' -> let i = String.index body ':' in
        let id = int_of_string (String.sub body 0 i) in
        let v = String.sub body (i + 1) (String.length body - i - 1) in
        TShare { sid = n_of_int id; sval = bytes_of_hex (if v = "" then "-" else v) }
      | '!' -> let (t, _) = parse_one [body] in TSome t
      | 'w' -> TWord body
      | _ -> failwith ("bad token " ^ w) in
    (t, rest)

let parse_args ws = let rec go acc ws = match ws with [] -> List.rev acc | _ -> let (t, r) = parse_one ws in go (t :: acc) r in go [] ws

let bytes_of = function TBytes b -> b | _ -> failwith "bytes expected"
let scalar_of = function TScalar s -> car_of_z s | _ -> failwith "scalar expected"
let sigpt_of = function TP s -> (Obj.magic s : pt) | _ -> failwith "sig point expected"
let pkpt_of = function TQ s -> (Obj.magic s : pt) | _ -> failwith "pk point expected"
let scheme_of = function TScheme s -> s | _ -> failwith "scheme expected"
let share_of = function TShare s -> s | _ -> failwith "share expected"
let list_of = function TList l -> l | _ -> failwith "list expected"
let int_of = function TNum s -> int_of_string s | _ -> failwith "num expected"
(* decimal string -> N, by Horner in extracted arithmetic (u64/u128 values exceed OCaml int) *)
let bign_of = function
  | TNum s -> let acc = ref N0 in
    String.iter (fun c -> acc := N.add (N.mul !acc (n_of_int 10)) (n_of_int (Char.code c - 48))) s; !acc
  | _ -> failwith "num expected"
let n_of_dec (s : str) : n = let acc = ref N0 in
  String.iter (fun c -> acc := N.add (N.mul !acc (n_of_int 10)) (n_of_int (Char.code c - 48))) s; !acc
let z_of_dec (s : str) : z =
  if String.length s > 0 && s.[0] = '-' then Z.opp (Z.of_N (n_of_dec (String.sub s 1 (String.length s - 1))))
  else Z.of_N (n_of_dec s)
let dec_of_n (x : n) : str =
  if x = N0 then "0" else begin
    let ten = n_of_int 10 in
    let rec go x acc = if x = N0 then acc else go (N.div x ten) (string_of_int (int_of_n (N.modulo x ten)) ^ acc) in
    go x "" end
let rec chunks2 = function [] -> [] | a :: b :: r -> (a, b) :: chunks2 r | _ -> failwith "pairs"

(* ---------- printing ---------- *)
let err_name = function
  | SigningError -> "SigningError" | InvalidInputs -> "InvalidInputs"
  | InvalidSignature -> "InvalidSignature" | InvalidProof -> "InvalidProof"
  | InvalidSignatureScheme -> "InvalidSignatureScheme"
  | InvalidDecryptionShare -> "InvalidDecryptionShare" | VsssError -> "VsssError"
  | DeserializationError -> "DeserializationError"
let scheme_name = function Basic -> "basic" | Aug -> "aug" | Pop -> "pop"
let in_m (f : 'a -> str) (x : 'a m) = match x with Val a -> f a | Panic -> "panic" | Loop -> "loop"
let in_res (f : 'a -> str) (x : 'a res) = match x with Ok a -> "ok" ^ f a | Err e -> "err:" ^ err_name e
let unit_res (x : unit res) = in_res (fun () -> "") x
let opt_bytes = function Some b -> "some:" ^ hex_of_bytes b | None -> "none"
let fmt_share (s : share) = Printf.sprintf "h%d:%s" (int_of_n s.sid) (hex_of_bytes s.sval)
let fmt_scalar (a : car) = hex_of_z (z_of_car a)

let run_op (g1 : bool) (dbg : bool) (op : str) (a : tok list) : str =
  let k = zr and o = mk_oracles g1 and c = if g1 then g1Impl else g2Impl in
  let esig (p : pt) = hex_of_bytes (o.enc_sig (Obj.magic p)) in
  let epk (p : pt) = hex_of_bytes (o.enc_pk (Obj.magic p)) in
  let arg i = List.nth a i in
  let tagged_list l = List.map (fun (s, p) -> { tg_scheme = scheme_of s; tg_pt = sigpt_of p }) (chunks2 l) in
  let fmt_tagged (t : tagged) = ":" ^ scheme_name t.tg_scheme ^ ":" ^ esig t.tg_pt in
  let sc_ct_of () = { sc_u = pkpt_of (arg 0); sc_v = bytes_of (arg 1); sc_w = sigpt_of (arg 2); sc_scheme = scheme_of (arg 3) } in
  let ent_of (seeds : tok list) : nat -> bytes =
    let arr = Array.of_list (List.map bytes_of seeds) in
    fun i -> let i = int_of_nat i in if i < Array.length arr then arr.(i) else failwith "entropy exhausted" in
  match op with
  | "sk_public_key" -> epk (public_key k (scalar_of (arg 0)))
  | "sk_sign" -> in_res fmt_tagged (sk_sign k o c (scalar_of (arg 0)) (scheme_of (arg 1)) (bytes_of (arg 2)))
  | "sig_verify" ->
    unit_res (sig_verify k o c { tg_scheme = scheme_of (arg 0); tg_pt = sigpt_of (arg 1) } (pkpt_of (arg 2)) (bytes_of (arg 3)))
  | "core_verify" -> unit_res (core_verify k o (pkpt_of (arg 0)) (sigpt_of (arg 1)) (bytes_of (arg 2)) (bytes_of (arg 3)))
  | "pop_prove" -> in_res (fun p -> ":" ^ esig p) (sk_proof_of_possession k o c (scalar_of (arg 0)))
  | "pop_verify" -> unit_res (pop_wrapper_verify k o c (sigpt_of (arg 0)) (pkpt_of (arg 1)))
  | "agg_from_sigs" -> in_res fmt_tagged (aggregate_from_signatures k (tagged_list (list_of (arg 0))))
  | "agg_verify" ->
    let data = List.map (fun (q, m) -> (pkpt_of q, bytes_of m)) (chunks2 (list_of (arg 2))) in
    in_m unit_res (aggregate_verify k o c dbg { tg_scheme = scheme_of (arg 0); tg_pt = sigpt_of (arg 1) } data)
  | "multi_from_sigs" -> in_res fmt_tagged (multi_from_sigs k (tagged_list (list_of (arg 0))))
  | "multi_verify" ->
    unit_res (multi_verify k o c { tg_scheme = scheme_of (arg 0); tg_pt = sigpt_of (arg 1) } (pkpt_of (arg 2)) (bytes_of (arg 3)))
  | "trait_multi_sig_verify" ->
    unit_res (pop_multi_sig_verify k o c (List.map pkpt_of (list_of (arg 0))) (sigpt_of (arg 1)) (bytes_of (arg 2)))
  | "trait_aggregate_signatures" -> esig (aggregate_signatures k (List.map sigpt_of (list_of (arg 0))))
  | "trait_multi_from_signatures" -> esig (multi_from_signatures k (List.map sigpt_of (list_of (arg 0))))
  | "trait_create_decryption_share" ->
    in_m (in_res (fun s -> ":" ^ fmt_share s)) (sc_create_decryption_share k o c dbg (share_of (arg 0)) (pkpt_of (arg 1)))
  | "trait_partial_verify" ->
    (match scheme_of (arg 0) with
     | Basic -> unit_res (basic_partial_verify k o c (share_of (arg 1)) (share_of (arg 2)) (bytes_of (arg 3)))
     | _ -> unit_res (pop_partial_verify k o c (share_of (arg 1)) (share_of (arg 2)) (bytes_of (arg 3))))
  | "multi_pk" -> epk (multi_pk_from_public_keys k (List.map pkpt_of (list_of (arg 0))))
  (* shares *)
  | "sk_split" ->
    in_m (in_res (fun l -> ":[" ^ String.concat "" (List.map (fun s -> " " ^ fmt_share s) l) ^ " ]"))
      (sk_split k o (scalar_of (arg 0)) (nat_of_int (int_of (arg 1))) (nat_of_int (int_of (arg 2))) (bytes_of (arg 3)))
  | "sk_combine" -> in_m (in_res (fun s -> ":" ^ fmt_scalar s)) (sk_combine k o (List.map share_of (list_of (arg 0))))
  | "sks_public_key" -> in_res (fun s -> ":" ^ fmt_share s) (sks_public_key k o c (share_of (arg 0)))
  | "sks_sign" ->
    in_res (fun (t : tagged_share) -> ":" ^ scheme_name t.ts_scheme ^ ":" ^ fmt_share t.ts_share)
      (sks_sign k o c (share_of (arg 0)) (scheme_of (arg 1)) (bytes_of (arg 2)))
  | "pks_verify" ->
    unit_res (pks_verify k o c (share_of (arg 0)) { ts_scheme = scheme_of (arg 1); ts_share = share_of (arg 2) } (bytes_of (arg 3)))
  | "sig_from_shares" ->
    let l = List.map (fun (s, h) -> { ts_scheme = scheme_of s; ts_share = share_of h }) (chunks2 (list_of (arg 0))) in
    in_m (in_res fmt_tagged) (sig_from_shares k o l)
  | "pk_from_shares" -> in_m (in_res (fun p -> ":" ^ epk p)) (pk_from_shares k o (List.map share_of (list_of (arg 0))))
  (* scalar byte codecs *)
  | "sk_from_be" -> (match scalar_from_be_bytes k o (bytes_of (arg 0)) with Some s -> "some:" ^ fmt_scalar s | None -> "none")
  | "sk_from_le" -> (match scalar_from_le_bytes k o (bytes_of (arg 0)) with Some s -> "some:" ^ fmt_scalar s | None -> "none")
  | "sk_to_be" -> hex_of_bytes (scalar_to_be_bytes k o (scalar_of (arg 0)))
  | "sk_to_le" -> hex_of_bytes (scalar_to_le_bytes k o (scalar_of (arg 0)))
  | "sk_from_hash" -> in_m fmt_scalar (sk_from_hash k o (bytes_of (arg 0)))
  (* signcryption *)
  | "pk_sign_crypt" ->
    in_m (fun ((ct : sc_ct), w) -> Printf.sprintf "%s:%s:%s:%s:draws=%d" (epk ct.sc_u) (hex_of_bytes ct.sc_v) (esig ct.sc_w) (scheme_name ct.sc_scheme) (int_of_nat w))
      (pk_sign_crypt k o c dbg (ent_of [arg 3]) (pkpt_of (arg 0)) (scheme_of (arg 1)) (bytes_of (arg 2)) O)
  | "scct_is_valid" -> in_m string_of_bool (scct_is_valid k o c dbg (sc_ct_of ()))
  | "scct_decrypt" -> in_m opt_bytes (scct_decrypt k o c dbg (sc_ct_of ()) (scalar_of (arg 4)))
  | "scct_create_decryption_share" -> in_res (fun s -> ":" ^ fmt_share s) (scct_create_decryption_share k o c (sc_ct_of ()) (share_of (arg 4)))
  | "sds_verify" -> in_m unit_res (sds_verify k o c dbg (share_of (arg 4)) (share_of (arg 5)) (sc_ct_of ()))
  | "scct_decrypt_with_shares" -> in_m opt_bytes (scct_decrypt_with_shares k o c dbg (sc_ct_of ()) (List.map share_of (list_of (arg 4))))
  | "scdk_from_shares" -> in_m (in_res (fun p -> ":" ^ epk p)) (scdk_from_shares k o (List.map share_of (list_of (arg 0))))
  | "scdk_decrypt" -> in_m opt_bytes (scdk_decrypt k o c dbg (pkpt_of (arg 4)) (sc_ct_of ()))
  (* time lock *)
  | "pk_encrypt_time_lock" ->
    in_m (fun (r, w) -> (match r with
        | Ok (ct : tl_ct) -> Printf.sprintf "ok:%s:%s:%s:%s" (epk ct.tl_u) (hex_of_bytes ct.tl_v) (hex_of_bytes ct.tl_w) (scheme_name ct.tl_scheme)
        | Err e -> "err:" ^ err_name e) ^ Printf.sprintf ":draws=%d" (int_of_nat w))
      (pk_encrypt_time_lock k o c dbg (ent_of [arg 4]) (pkpt_of (arg 0)) (scheme_of (arg 1)) (bytes_of (arg 2)) (bytes_of (arg 3)) O)
  | "tlct_decrypt" ->
    let ct = { tl_u = pkpt_of (arg 0); tl_v = bytes_of (arg 1); tl_w = bytes_of (arg 2); tl_scheme = scheme_of (arg 3) } in
    in_m opt_bytes (tlct_decrypt k o dbg ct { tg_scheme = scheme_of (arg 4); tg_pt = sigpt_of (arg 5) })
  (* ElGamal *)
  | "message_generator" -> epk (message_generator k o c)
  | "eg_encrypt" ->
    in_m (fun (r, w) -> (match r with
        | Ok (ct : eg_ct) -> Printf.sprintf "ok:%s:%s" (epk ct.eg_c1) (epk ct.eg_c2)
        | Err e -> "err:" ^ err_name e) ^ Printf.sprintf ":draws=%d" (int_of_nat w))
      (pk_encrypt_key_el_gamal k o c dbg (ent_of [arg 2]) (pkpt_of (arg 0)) (scalar_of (arg 1)) O)
  | "eg_encrypt_proof" ->
    in_m (fun (r, w) -> (match r with
        | Ok (p : eg_proof) -> Printf.sprintf "ok:%s:%s:%s:%s:%s" (epk p.egp_ct.eg_c1) (epk p.egp_ct.eg_c2) (fmt_scalar p.egp_mp) (fmt_scalar p.egp_bp) (fmt_scalar p.egp_ch)
        | Err e -> "err:" ^ err_name e) ^ Printf.sprintf ":draws=%d" (int_of_nat w))
      (pk_encrypt_key_el_gamal_with_proof k o c dbg (ent_of [arg 2]) (pkpt_of (arg 0)) (scalar_of (arg 1)) O)
  | "egct_decrypt" -> epk (egct_decrypt k { eg_c1 = pkpt_of (arg 0); eg_c2 = pkpt_of (arg 1) } (scalar_of (arg 2)))
  | "egct_add" ->
    let cts = List.map (fun (x, y) -> { eg_c1 = pkpt_of x; eg_c2 = pkpt_of y }) (chunks2 (list_of (arg 0))) in
    let acc = List.fold_left (fun acc ct -> egct_add k acc ct) (List.hd cts) (List.tl cts) in
    epk acc.eg_c1 ^ ":" ^ epk acc.eg_c2
  | "egp_verify" | "egp_verify_and_decrypt" ->
    let p = { egp_ct = { eg_c1 = pkpt_of (arg 0); eg_c2 = pkpt_of (arg 1) }; egp_mp = scalar_of (arg 2); egp_bp = scalar_of (arg 3); egp_ch = scalar_of (arg 4) } in
    if op = "egp_verify" then unit_res (egp_verify k o c p (pkpt_of (arg 5)))
    else in_res (fun pt -> ":" ^ epk pt) (egp_verify_and_decrypt k o c p (scalar_of (arg 5)))
  | "egdk_from_shares" -> in_m (in_res (fun p -> ":" ^ epk p)) (egdk_from_shares k o (List.map share_of (list_of (arg 0))))
  | "egdk_decrypt" -> epk (egdk_decrypt k (pkpt_of (arg 0)) { eg_c1 = pkpt_of (arg 1); eg_c2 = pkpt_of (arg 2) })
  (* proofs of knowledge *)
  | "pc_generate" ->
    in_m (fun (r, w) -> (match r with
        | Ok ((t : tagged), x) -> Printf.sprintf "ok:%s:%s:%s" (scheme_name t.tg_scheme) (esig t.tg_pt) (fmt_scalar x)
        | Err e -> "err:" ^ err_name e) ^ Printf.sprintf ":draws=%d" (int_of_nat w))
      (pc_generate k o c (ent_of (list_of (arg 3))) (bytes_of (arg 0)) { tg_scheme = scheme_of (arg 1); tg_pt = sigpt_of (arg 2) } O)
  | "pc_finalize" ->
    in_res (fun (p : pok) -> Printf.sprintf ":%s:%s:%s" (scheme_name p.pok_scheme) (esig p.pok_u) (esig p.pok_v))
      (pc_finalize k { tg_scheme = scheme_of (arg 0); tg_pt = sigpt_of (arg 1) } (scalar_of (arg 2)) (scalar_of (arg 3))
         { tg_scheme = scheme_of (arg 4); tg_pt = sigpt_of (arg 5) })
  | "pok_verify" ->
    in_m unit_res (pok_wrapper_verify k o c dbg { pok_scheme = scheme_of (arg 0); pok_u = sigpt_of (arg 1); pok_v = sigpt_of (arg 2) }
                     (pkpt_of (arg 3)) (bytes_of (arg 4)) (scalar_of (arg 5)))
  | "pokts_generate" ->
    (* the clock value is reported by the implementation run; absent when it failed before reading the clock *)
    let now_ns = (try bign_of (arg 4) with _ -> N0) in
    in_m (fun (r, w) -> (match r with
        | Ok (p : pok_ts) -> Printf.sprintf "ok:%s:%s:%s:%s" (scheme_name p.pts_proof.pok_scheme) (esig p.pts_proof.pok_u) (esig p.pts_proof.pok_v) (dec_of_n p.pts_timestamp)
        | Err e -> "err:" ^ err_name e) ^ Printf.sprintf ":draws=%d" (int_of_nat w))
      (pokts_generate k o c dbg (ent_of (list_of (arg 3))) (bytes_of (arg 0)) { tg_scheme = scheme_of (arg 1); tg_pt = sigpt_of (arg 2) } now_ns O)
  | "pokts_verify_rel" ->
    let sk = scalar_of (arg 0) and x = scalar_of (arg 1) and s = scheme_of (arg 2) and msg = bytes_of (arg 3) in
    let offset = (match arg 4 with TWord w -> z_of_dec w | _ -> failwith "offset") in
    let tmo = (match arg 5 with TNone -> None | TSome t -> Some (bign_of t) | _ -> failwith "timeout") in
    let now_ns = bign_of (arg 6) in
    let now_ms = Z.of_N (N.div now_ns (n_of_dec "1000000")) in
    let tw = Z.add now_ms offset in
    let max64 = Z.of_N (N.sub (N.pow (n_of_int 2) (n_of_int 64)) (n_of_int 1)) in
    let t = if Z.ltb tw Z0 then N0 else if Z.ltb max64 tw then Z.to_N max64 else Z.to_N tw in
    let dst = (match s with Basic -> c.dST_NUL | Aug -> c.dST_AUG | Pop -> c.dST_POPSIG) in
    (match sk_sign k o c sk s msg with
     | Err e -> "sign-failed"
     | Ok sg ->
       let u = pmul k Gsig (hash_to_point k o msg dst) x in
       (match compute_y k o u t with
        | Val y ->
          let v = pneg k Gsig (pmul k Gsig sg.tg_pt (k.fadd x y)) in
          let p = { pts_proof = { pok_scheme = s; pok_u = u; pok_v = v }; pts_timestamp = t } in
          in_m unit_res (pokts_verify k o c dbg p (public_key k sk) msg tmo now_ns)
        | Panic -> "panic" | Loop -> "loop"))
  | "bytes_rt" ->
    let ty = (match arg 0 with TWord w -> w | _ -> failwith "type") and b = bytes_of (arg 1) in
    let r f e = in_res (fun v -> ":" ^ hex_of_bytes (e v)) (f b) in
    (match ty with
     | "pk" | "mpk" -> r (pk_try_from k o c) (pk_to_bytes k o)
     | "pop" -> r (pop_try_from k o c) (pop_to_bytes k o)
     | "sk" | "pcs" | "pcc" -> r (sk_try_from k o) (sk_to_bytes k o)
     | "skenum" -> r (sk_enum_try_from k o) (fun (cv, s) -> sk_enum_to_bytes k o cv s)
     | "sig" | "aggsig" -> r (signature_try_from k o c) (tagged_to_bytes k o c)
     | "multisig" -> r (multisig_try_from k o c) (tagged_to_bytes k o c)
     | "commitment" -> r (commitment_try_from k o c) (tagged_to_bytes k o c)
     | "pok" -> r (pok_try_from k o c) (pok_to_bytes k o c)
     | "pokts" -> r (pokts_try_from k o c) (pokts_to_bytes k o c)
     | "skshare" -> r sk_share_try_from share_to_bytes
     | "pkshare" | "sdshare" -> r (pk_share_try_from c) share_to_bytes
     | "egshare" -> r (eg_share_try_from c) share_to_bytes
     | "inner1" -> r (inner_share_try_from (nat_of_int 48)) share_to_bytes
     | "inner2" -> r (inner_share_try_from (nat_of_int 96)) share_to_bytes
     | "sigshare" -> r (sig_share_try_from c) sig_share_to_bytes
     | "scct" -> r (scct_try_from k o c) (scct_to_bytes k o c)
     | "scdk" | "egdk" -> r (pk_bare_try_from k o c) (pk_to_bytes k o)
     | "tlct" -> r (tlct_try_from k o c) (tlct_to_bytes k o c)
     | "egct" -> r (egct_try_from k o c) (egct_to_bytes k o c)
     | "egproof" -> r (egp_try_from k o c) (egp_to_bytes k o c)
     | _ -> "unknown-type:" ^ ty)
  | "skenum_from_le" ->
    (match sk_enum_from_le_bytes k o (bytes_of (arg 0)) with
     | Some (cv, s) -> "some:" ^ hex_of_bytes (sk_enum_to_le_bytes k o cv s) | None -> "none")
  | "skenum_from_be" ->
    (match sk_enum_from_be_bytes k o (bytes_of (arg 0)) with
     | Some (cv, s) -> "some:" ^ hex_of_bytes (sk_enum_to_bytes k o cv s) | None -> "none")
  | "keygen_hash" ->
    in_m (fun x -> let s = fmt_scalar x in String.concat ":" [s; s; s; s; s]) (sk_from_hash k o (bytes_of (arg 0)))
  | "keygen_seeded" ->
    in_m (fun (x, _) -> let s = fmt_scalar x in String.concat ":" [s; s; s; s; s]) (sk_new k o (ent_of [arg 0]) O)
  | "keygen_tap" ->
    let one t = in_m (fun (x, w) -> Printf.sprintf "%s:draws=%d" (fmt_scalar x) (int_of_nat w)) (sk_new k o (ent_of [t]) O) in
    String.concat ":" [one (arg 0); one (arg 1); one (arg 2)]
  | "sk_new" -> in_m (fun (x, w) -> Printf.sprintf "%s:draws=%d" (fmt_scalar x) (int_of_nat w)) (sk_new k o (ent_of [arg 0]) O)
  | "challenge_new" -> in_m (fun (x, w) -> Printf.sprintf "%s:draws=%d" (fmt_scalar x) (int_of_nat w)) (sk_new k o (ent_of [arg 0]) O)
  | "sk_split_tap" ->
    in_m (fun (r, w) -> (match r with
        | Ok l -> "ok:[" ^ String.concat "" (List.map (fun s -> " " ^ fmt_share s) l) ^ " ]"
        | Err e -> "err:" ^ err_name e) ^ Printf.sprintf ":draws=%d" (int_of_nat w))
      (sk_split_entropy k o (ent_of [arg 3]) (scalar_of (arg 0)) (nat_of_int (int_of (arg 1))) (nat_of_int (int_of (arg 2))) O)
  | "compute_y" -> in_m fmt_scalar (compute_y k o (sigpt_of (arg 0)) (bign_of (arg 1)))
  | _ -> "unknown-op:" ^ op

let () =
  let dbg = ref false in
  Arg.parse [ ("--dbg", Arg.Bool (fun b -> dbg := b), "debug-assertion semantics");
              ("--oracle", Arg.String (fun s -> oracle_cmd := s), "oracle server command") ]
    (fun _ -> ()) "driver --dbg b --oracle cmd < cases";
  (try
     while true do
       let line = input_line stdin in
       if String.length line > 5 && String.sub line 0 5 = "#reg " then begin
         (* "#reg g1|g2 <scalar hex>": make the oracle's decode table know this point *)
         ignore (ask ("enc " ^ String.sub line 5 (String.length line - 5)))
       end else
       if String.length line > 0 && line.[0] <> '#' then begin
         let ws = List.filter (fun s -> s <> "") (String.split_on_char ' ' line) in
         match ws with
         | id :: imp :: op :: rest ->
           let r = (try run_op (imp = "g1") !dbg op (parse_args rest) with
               | Unknown_dlog -> "skip:unknown-dlog"
               | Failure m -> "driver-failure:" ^ m) in
           print_string (id ^ " " ^ r ^ "\n")
         | _ -> ()
       end
     done
   with End_of_file -> ());
  Printf.eprintf "oracle_queries=%d\n" !oracle_queries
