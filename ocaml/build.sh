#!/bin/sh
# Extract the model from the Coq development and build the OCaml driver.
set -e
cd "$(dirname "$0")"
mkdir -p gen
( cd gen && coqc -Q ../../coq BV ../../coq/Extract/Extraction.v >/dev/null && rm -f ../../coq/Extract/Extraction.vo ../../coq/Extract/Extraction.glob ../../coq/Extract/.Extraction.aux ../../coq/Extract/Extraction.vos ../../coq/Extract/Extraction.vok )
cp driver.ml gen/driver.ml
( cd gen && ocamlfind ocamlopt -O2 -package unix -linkpkg -w -a model.mli model.ml driver.ml -o ../model_driver 2>/dev/null || ocamlfind ocamlopt -package unix -linkpkg -w -a model.mli model.ml driver.ml -o ../model_driver )
