"""Per-property configuration for check.py."""
PROPS = {
    "C01": {
        "rule": "correspondence: generated (key, scheme, message) cases through the hooked library and the extracted model, "
                "distinct = distinct case lines; search: honest tuples on the un-hooked API, distinct = distinct (impl, key, scheme, sha256(msg)) per check class, "
                "non-trivial = key non-zero and message drawn from a length class of the property",
        "trusted_base": [],
        "hand_modelled": ["all of src/traits/sig_core.rs, sig_basic.rs, sig_aug.rs, sig_pop.rs, SecretKey::sign, Signature::verify (coq/Model/Core.v, Api.v), tied by the correspondence run"],
        "assumptions": ["hash-to-curve never returns the identity for the tested inputs (the complementary case is the theorem C01_degenerate_hash_rejected)"],
    },
    "C02": {
        "rule": 'correspondence: generated cases (honest tuples and every perturbation class of the property, both group assignments, all schemes) through the hooked library and the extracted model, distinct = distinct case lines; search: un-hooked API against expectations from the property text and a reference on the other backend, distinct = distinct (class, input) pairs',
        "trusted_base": [],
        "hand_modelled": ['src/traits/sig_core.rs, sig_basic.rs, sig_aug.rs, sig_pop.rs, sig_multi.rs, pk_multi.rs and the wrapper dispatch of src/{secret_key,signature,aggregate_signature,multi_signature,multi_public_key,proof_of_possession}.rs (coq/Model/Core.v, Api.v), tied by the correspondence run'],
        "assumptions": ["reduction form: 'never verifies under another message/scheme' is proved as: acceptance implies an explicit hash-oracle collision between two different (input, tag) pairs"],
    },
    "C05": {
        "rule": 'correspondence: generated cases (honest tuples and every perturbation class of the property, both group assignments, all schemes) through the hooked library and the extracted model, distinct = distinct case lines; search: un-hooked API against expectations from the property text and a reference on the other backend, distinct = distinct (class, input) pairs',
        "trusted_base": [],
        "hand_modelled": ['src/traits/sig_core.rs, sig_basic.rs, sig_aug.rs, sig_pop.rs, sig_multi.rs, pk_multi.rs and the wrapper dispatch of src/{secret_key,signature,aggregate_signature,multi_signature,multi_public_key,proof_of_possession}.rs (coq/Model/Core.v, Api.v), tied by the correspondence run'],
        "assumptions": ["reduction form for cross-scheme acceptance; tag distinctness by computation on the model's constants, which the correspondence run ties to the code"],
    },
    "C06": {
        "rule": 'correspondence: generated cases (honest tuples and every perturbation class of the property, both group assignments, all schemes) through the hooked library and the extracted model, distinct = distinct case lines; search: un-hooked API against expectations from the property text and a reference on the other backend, distinct = distinct (class, input) pairs',
        "trusted_base": [],
        "hand_modelled": ['src/traits/sig_core.rs, sig_basic.rs, sig_aug.rs, sig_pop.rs, sig_multi.rs, pk_multi.rs and the wrapper dispatch of src/{secret_key,signature,aggregate_signature,multi_signature,multi_public_key,proof_of_possession}.rs (coq/Model/Core.v, Api.v), tied by the correspondence run'],
        "assumptions": ['debug builds: hash points of the listed messages are not the identity (debug_assert in the code)'],
    },
    "C07": {
        "rule": 'correspondence: generated cases (honest tuples and every perturbation class of the property, both group assignments, all schemes) through the hooked library and the extracted model, distinct = distinct case lines; search: un-hooked API against expectations from the property text and a reference on the other backend, distinct = distinct (class, input) pairs',
        "trusted_base": [],
        "hand_modelled": ['src/traits/sig_core.rs, sig_basic.rs, sig_aug.rs, sig_pop.rs, sig_multi.rs, pk_multi.rs and the wrapper dispatch of src/{secret_key,signature,aggregate_signature,multi_signature,multi_public_key,proof_of_possession}.rs (coq/Model/Core.v, Api.v), tied by the correspondence run'],
        "assumptions": [],
    },
    "C08": {
        "rule": 'correspondence: generated cases (honest tuples and every perturbation class of the property, both group assignments, all schemes) through the hooked library and the extracted model, distinct = distinct case lines; search: un-hooked API against expectations from the property text and a reference on the other backend, distinct = distinct (class, input) pairs',
        "trusted_base": [],
        "hand_modelled": ['src/traits/sig_core.rs, sig_basic.rs, sig_aug.rs, sig_pop.rs, sig_multi.rs, pk_multi.rs and the wrapper dispatch of src/{secret_key,signature,aggregate_signature,multi_signature,multi_public_key,proof_of_possession}.rs (coq/Model/Core.v, Api.v), tied by the correspondence run', 'vsss-rs 4.3.8 split/combine/interpolate and the [u8; N] share containers (coq/Model/Core.v combine_shares_with, Api.v sk_split), tied by the correspondence run'],
        "assumptions": ['EmbedLaw: one-byte identifiers 1..255 are distinct non-zero field elements (characteristic > 255)', 'rng scalars drawn for coefficients are non-zero (probability 1 - 2^-255)'],
    },
    "C09": {
        "rule": 'correspondence: generated cases (honest tuples and every perturbation class of the property, both group assignments, all schemes) through the hooked library and the extracted model, distinct = distinct case lines; search: un-hooked API against expectations from the property text and a reference on the other backend, distinct = distinct (class, input) pairs',
        "trusted_base": [],
        "hand_modelled": ['src/traits/sig_core.rs, sig_basic.rs, sig_aug.rs, sig_pop.rs, sig_multi.rs, pk_multi.rs and the wrapper dispatch of src/{secret_key,signature,aggregate_signature,multi_signature,multi_public_key,proof_of_possession}.rs (coq/Model/Core.v, Api.v), tied by the correspondence run'],
        "assumptions": ["reduction form for 'rejected for every other key'"],
    },
    "C04": {
        "rule": 'correspondence: generated cases (honest tuples and every perturbation class of the property, both group assignments, all schemes) through the hooked library and the extracted model, distinct = distinct case lines; search: un-hooked API against expectations from the property text and a reference on the other backend, distinct = distinct (class, input) pairs',
        "trusted_base": [],
        "hand_modelled": ['every verify / decrypt / sign entry point of src/traits/*.rs and its wrapper (coq/Model)'],
        "assumptions": [],
    },
    "C10": {
        "rule": 'correspondence: generated cases (honest tuples and every perturbation class of the property, both group assignments, all schemes) through the hooked library and the extracted model, distinct = distinct case lines; search: un-hooked API against expectations from the property text and a reference on the other backend, distinct = distinct (class, input) pairs',
        "trusted_base": [],
        "hand_modelled": ['src/traits/sig_proof.rs, src/proof_commitment.rs, src/proof_of_knowledge.rs (coq/Model/Protocols.v, Api.v); the clock is an explicit argument now_ns'],
        "assumptions": ['clock not before the epoch; hash_to_scalar output non-zero (else the retry loop of scalar_from_hkdf_bytes never ends: stated, unreachable without a SHA-256 preimage)', 'KNOWN FINDING: MessageAugmentation proofs of knowledge are incomplete (C10_aug_incomplete)'],
    },
    "C11": {
        "rule": 'correspondence: generated cases (honest tuples and every perturbation class of the property, both group assignments, all schemes) through the hooked library and the extracted model, distinct = distinct case lines; search: un-hooked API against expectations from the property text and a reference on the other backend, distinct = distinct (class, input) pairs',
        "trusted_base": [],
        "hand_modelled": ['src/traits/sign_crypt.rs, src/sign_crypt_ciphertext.rs, PublicKey::sign_crypt, uint-zigzag varint (coq/Model/Protocols.v, Varint.v, Api.v)'],
        "assumptions": ['messages shorter than 2^64 bytes', 'seal side conditions: r != 0, hash point != identity, 32-byte keystream not all zero (debug assertions of the code)', 'KNOWN FINDING: wrong-key decryption of the empty message returns the empty message with probability 1/256'],
    },
    "C12": {
        "rule": 'correspondence: generated cases (honest tuples and every perturbation class of the property, both group assignments, all schemes) through the hooked library and the extracted model, distinct = distinct case lines; search: un-hooked API against expectations from the property text and a reference on the other backend, distinct = distinct (class, input) pairs',
        "trusted_base": [],
        "hand_modelled": ['as C11 plus SignDecryptionShare, SignCryptDecryptionKey and vsss-rs combination'],
        "assumptions": ['EmbedLaw (identifiers 1..255 distinct and non-zero in the field)'],
    },
    "C13": {
        "rule": 'correspondence: generated cases (honest tuples and every perturbation class of the property, both group assignments, all schemes) through the hooked library and the extracted model, distinct = distinct case lines; search: un-hooked API against expectations from the property text and a reference on the other backend, distinct = distinct (class, input) pairs',
        "trusted_base": [],
        "hand_modelled": ['src/traits/time_crypt.rs, src/time_crypt_ciphertext.rs, PublicKey::encrypt_time_lock (coq/Model/Protocols.v, Api.v)'],
        "assumptions": ['reduction form: an altered ciphertext opens to another message only at a collision of H_Zq or SHA-256'],
    },
    "C14": {
        "rule": 'correspondence: generated cases (honest tuples and every perturbation class of the property, both group assignments, all schemes) through the hooked library and the extracted model, distinct = distinct case lines; search: un-hooked API against expectations from the property text and a reference on the other backend, distinct = distinct (class, input) pairs',
        "trusted_base": [],
        "hand_modelled": ['src/traits/elgamal.rs, src/elgamal_*.rs, PublicKey::encrypt_key_el_gamal* (coq/Model/Protocols.v, Api.v); merlin transcript as the oracle fs'],
        "assumptions": ['reduction form: a modified tuple verifies only at a Fiat-Shamir collision'],
    },
    "C15": {
        "rule": "correspondence: generated cases through the hooked library and the extracted model (valid encodings from independent reference encoders; every truncation, extensions, invalid points at every point position, bit flips, random bytes; degenerate payload sizes), distinct = distinct case lines; search: un-hooked API incl. serde_json forms against the property's expectations, distinct = distinct (class, input) pairs",
        "trusted_base": [],
        "hand_modelled": ["serde_bare layouts of all data types as the derive macros produce them and the hand-written From/TryFrom byte conversions (coq/Model/Codec.v); serde_json forms are NOT modelled in Coq (search only); curve crates' own Serialize/Deserialize and checked point decoding are oracles"],
        "assumptions": ['OracleLaws: dec (enc p) = Some p, fixed encoding lengths, unrepr (repr a) = Some a, sdec (ser a) = Some a', 'JSON (human-readable) forms are covered by the search harness only'],
    },
    "C16": {
        "rule": "correspondence: generated cases through the hooked library and the extracted model (valid encodings from independent reference encoders; every truncation, extensions, invalid points at every point position, bit flips, random bytes; degenerate payload sizes), distinct = distinct case lines; search: un-hooked API incl. serde_json forms against the property's expectations, distinct = distinct (class, input) pairs",
        "trusted_base": [],
        "hand_modelled": ["serde_bare layouts of all data types as the derive macros produce them and the hand-written From/TryFrom byte conversions (coq/Model/Codec.v); serde_json forms are NOT modelled in Coq (search only); curve crates' own Serialize/Deserialize and checked point decoding are oracles"],
        "assumptions": ["'every returned point is a valid subgroup point' holds by construction in the dlog model (a point value exists only if the checked decoder accepted its bytes); the correspondence run feeds off-subgroup / off-curve / bad-flag encodings at every point position and requires the implementation to reject exactly what the model's checked decoder rejects"],
    },
    "C17": {
        "rule": "correspondence: generated cases through the hooked library and the extracted model (valid encodings from independent reference encoders; every truncation, extensions, invalid points at every point position, bit flips, random bytes; degenerate payload sizes), distinct = distinct case lines; search: un-hooked API incl. serde_json forms against the property's expectations, distinct = distinct (class, input) pairs",
        "trusted_base": [],
        "hand_modelled": ["serde_bare layouts of all data types as the derive macros produce them and the hand-written From/TryFrom byte conversions (coq/Model/Codec.v); serde_json forms are NOT modelled in Coq (search only); curve crates' own Serialize/Deserialize and checked point decoding are oracles", 'all consuming entry points (coq/Model)'],
        "assumptions": ['oracle side conditions the code itself asserts in debug builds: hash points are not the identity; a keystream of >= 32 bytes is not all zero; hash_to_scalar output non-zero (otherwise the HKDF retry loop never ends: unreachable without a SHA-256 preimage)', 'panics inside dependencies are covered by the search harness only'],
    },
    "C18": {
        "extra": [["golden-check", "/verif/golden/corpus.json"]],
        "rule": 'correspondence: seal/open/prove/verify cases of all four constructions and valid encodings of every type, byte for byte; search: independent reference implementation opens what the library seals and vice versa; golden corpus of the pinned release',
        "trusted_base": [],
        "hand_modelled": ['all own-protocol constructions (coq/Model/Protocols.v) and layouts (coq/Model/Codec.v)'],
        "assumptions": ['the pinning theorems are about the model; the model is tied to the code by the byte-exact correspondence run, the code to the documented constructions by the independent reference implementation in harness/blsdiff/src/search_enc.rs and by the golden corpus of the pinned release'],
    },
    "C03": {
        "rule": "correspondence: KeyGen for seeds of many lengths (HKDF recomputed from HMAC-SHA-256 by the oracle server), public keys, signatures of all schemes, PoPs, aggregates, byte for byte, on the hooked build; search (un-hooked): library output == reference on the pure-Rust backend for keys, signatures, PoPs, aggregates, both verifiers accept each other's signatures, RFC 9380 vectors through blsful's hash_to_point",
        "trusted_base": [],
        "hand_modelled": ['KeyGen (scalar_from_hkdf_bytes), Sign/Verify/PopProve/PopVerify/Aggregate/CoreAggregateVerify (coq/Model)'],
        "assumptions": ['PARTIAL: byte-exactness of points rests on hash-to-curve (SSWU, isogeny, cofactor clearing) and point compression inside the curve crates, which are oracles of the model; that part is decided by the conformance run of the search harness, not by a theorem'],
    },
    "C19": {
        "rule": 'correspondence: the generated cases of C01, C03, C07, C08, C09, C11, C13, C14, C15 run against the harness built with the PURE-RUST backend and compared byte for byte with the extracted model; search: transcript equality of every deterministic operation between the blst and the rust build on the same cases, and cross-consumption of randomized artefacts produced under one backend and consumed under the other, both directions',
        "trusted_base": [],
        "hand_modelled": ['the whole model; src/impls.rs inner_types re-export is the only backend-conditional item (static obligation)'],
        "assumptions": ['PARTIAL: the theorems state backend-agnosticism of the blsful layer given that the two crates implement the same primitives; that they do is decided by the two-build differential run'],
        "gen": False,
    },
    "C20": {
        "rule": 'correspondence: every randomized entry point under the entropy tap with identical arguments and different / repeated seeds: outputs byte for byte and the number of draws; search (un-hooked): N identical calls per entry point on 1 and 8 threads and in two separate processes, ephemeral components pairwise distinct',
        "trusted_base": [],
        "hand_modelled": ['get_crypto_rng and every caller (coq/Model/Protocols.v, Api.v); the entropy source is the explicit sequence ent'],
        "assumptions": ['PARTIAL: that ChaCha20Rng::from_entropy() returns unpredictable, distinct seeds across calls, threads and processes is OS / getrandom behaviour outside the model; tested by the search harness'],
    },
}
