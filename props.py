"""Per-property configuration for check.py."""
PROPS = {
    "C01": {
        "rule": "correspondence: generated (key, scheme, message) cases through the hooked library and the extracted model, "
                "distinct = distinct case lines; search: honest tuples on the un-hooked API, distinct = distinct (impl, key, scheme, sha256(msg)) per check class, "
                "non-trivial = key non-zero and message drawn from a length class of the property",
        "trusted_base": [],
        "hand_modelled": ["all of src/traits/sig_core.rs, sig_basic.rs, sig_aug.rs, sig_pop.rs, SecretKey::sign, Signature::verify (coq/Model/Core.v, Api.v), tied by the correspondence run"],
        "assumptions": ["hash-to-curve never returns the identity for the tested inputs (the complementary case is the theorem C01_degenerate_hash_rejected)"],
    },
}
