#!/usr/bin/env python3
"""Per-property check driver for the blsful verification (see DESIGN.md §6, §10).

  check.py Cxx --tier quick|thorough          run the check, write evidence/Cxx.json
  check.py Cxx --replay replays/<file>.json   re-execute one recorded failing input
  check.py --setup                            build everything once (MANIFEST.setup_cmd)

Exit 0: property held on everything explored.  Exit 1: a line
  VIOLATION property=Cxx replay=<path> [no-failing-input-found]
"""
import hashlib
import json, shutil
import os
import re
import subprocess
import sys
import time

ROOT = os.path.dirname(os.path.abspath(__file__))
REPO = "/repo"
COQ = os.path.join(ROOT, "coq")
HARNESS = os.path.join(ROOT, "harness")
OCAML = os.path.join(ROOT, "ocaml")
EVID = os.path.join(ROOT, "evidence")
REPLAYS = os.path.join(ROOT, "replays")
CACHE = os.path.join(ROOT, ".cache")
ENV = dict(os.environ, CARGO_NET_OFFLINE="true", RUSTFLAGS="--cfg blsful_verif")
ALLOWED_AXIOMS = set()  # property theorems must be closed under the global context

sys.path.insert(0, ROOT)
from props import PROPS  # noqa: E402  (per-property configuration)


def sh(cmd, cwd=None, timeout=1800, env=None, stdin=None):
    p = subprocess.run(cmd, cwd=cwd, env=env or ENV, input=stdin, stdout=subprocess.PIPE,
                       stderr=subprocess.PIPE, timeout=timeout, shell=isinstance(cmd, str))
    return p.returncode, p.stdout.decode(errors="replace"), p.stderr.decode(errors="replace")


def sha_of(paths):
    h = hashlib.sha256()
    for p in sorted(paths):
        h.update(p.encode())
        with open(p, "rb") as f:
            h.update(f.read())
    return h.hexdigest()


def files_under(d, exts):
    out = []
    for r, _, fs in os.walk(d):
        if "/target" in r or "/gen" in r or "/.git" in r:
            continue
        for f in fs:
            if f.endswith(exts):
                out.append(os.path.join(r, f))
    return out


# ----------------------------------------------------------------------------- builds
def build_harness(profile, feature="blst"):
    """cargo build of blsdiff against /repo's working tree, hooks on."""
    tdir = os.path.join(HARNESS, "target" if feature == "blst" else "target-rust")
    cmd = ["cargo", "build", "--offline", "-q", "--target-dir", tdir]
    if profile == "release":
        cmd.append("--release")
    if feature != "blst":
        cmd += ["-p", "blsdiff", "--no-default-features", "--features", feature]
    rc, out, err = sh(cmd, cwd=HARNESS, timeout=3600)
    binp = os.path.join(tdir, "release" if profile == "release" else "debug", "blsdiff")
    return rc == 0, binp, (out + err)[-4000:]


def build_coq(targets):
    """make the given .vo targets (full .vo build)."""
    if not os.path.exists(os.path.join(COQ, "Makefile")):
        sh("coq_makefile -f _CoqProject -o Makefile", cwd=COQ)
    rc, out, err = sh(["make", "-j16"] + targets, cwd=COQ, timeout=3000)
    return rc == 0, out + err


REFINE = {
    # property -> Refine/<file>.v whose lemmas tie the generated code (rs2v) to the model
    "C01": ["SigCore", "SigSchemes", "WSig", "WEnum", "G01"], "C02": ["SigCore", "SigSchemes", "WSig", "WCodec", "G02"],
    "C03": ["HelpersR", "Consts", "SigSchemes", "WSig", "WEnum", "G03"],
    "C04": ["HelpersR", "SigCore", "SigSchemes", "PoK", "SignCrypt", "TimeLock", "ElGamal", "WSig", "WPoK", "WEnc", "G04"],
    "C05": ["Consts", "SigSchemes", "WSig", "WPoK", "WEnc", "G05"],
    "C06": ["SigCore", "SigSchemes", "WSig", "G06"], "C07": ["SigSchemes", "WSig", "G07"], "C08": ["SigCore", "WSig", "G08"],
    "C09": ["SigSchemes", "WSig", "WCodec", "G09"], "C10": ["PoK", "WPoK", "G10"], "C11": ["HelpersR", "SignCrypt", "WEnc", "G11"],
    "C12": ["SignCrypt", "SigCore", "WEnc", "G12"], "C13": ["HelpersR", "TimeLock", "WEnc", "G13"], "C14": ["ElGamal", "Consts", "WEnc", "G14"],
    "C15": ["HelpersR", "Consts", "WCodec", "WEnum", "G15"], "C16": ["HelpersR", "Consts", "WCodec", "WEnum", "G16"], "C17": ["HelpersR", "PoK", "SignCrypt", "TimeLock", "WSig", "WPoK", "WEnc", "WCodec", "WEnum", "G17"],
    "C18": ["HelpersR", "Consts", "PoK", "SignCrypt", "TimeLock", "ElGamal", "WEnc", "WCodec", "G18"], "C19": ["HelpersR"],
    "C20": ["PoK", "SignCrypt", "TimeLock", "WSig", "WPoK", "WEnc", "WEnum", "G20"],
}


class CoqLock:
    """serialises the Coq builds of concurrently running checks (they share coq/*.vo)"""
    def __enter__(self):
        import fcntl
        os.makedirs(CACHE, exist_ok=True)
        self.f = open(os.path.join(CACHE, "coq.lock"), "w")
        fcntl.flock(self.f, fcntl.LOCK_EX)
        return self

    def __exit__(self, *a):
        import fcntl
        fcntl.flock(self.f, fcntl.LOCK_UN)
        self.f.close()


def regen():
    """Translator tie: run rs2v over /repo/src and refresh coq/Gen/*.v when their content changed."""
    binp = os.path.join(HARNESS, "target", "debug", "rs2v")
    if not os.path.exists(binp):
        return False, "rs2v binary missing (harness build failed)", {}
    tmp = os.path.join(CACHE, "gen-%d" % os.getpid())
    os.makedirs(tmp, exist_ok=True)
    rc, out, err = sh([binp, os.path.join(REPO, "src"), tmp], timeout=300)
    stats = {"translated": None, "not_translated": []}
    m = re.search(r"rs2v: (\d+) functions translated, (\d+) not translated", err)
    if m:
        stats["translated"] = int(m.group(1))
    stats["not_translated"] = re.findall(r"not translated: (.*)", err)
    if rc != 0:
        shutil.rmtree(tmp, ignore_errors=True)
        return False, (out + err)[-1500:], stats
    gdir = os.path.join(COQ, "Gen")
    os.makedirs(gdir, exist_ok=True)
    with CoqLock():
        for f in sorted(os.listdir(tmp)):
            new = open(os.path.join(tmp, f)).read()
            dst = os.path.join(gdir, f)
            if not os.path.exists(dst) or open(dst).read() != new:
                open(dst, "w").write(new)
    shutil.rmtree(tmp, ignore_errors=True)
    return True, "", stats


def coqc_log(target):
    """compile coq/<target minus .vo>.v into a scratch directory (the real .vo stays untouched) and return coqc's
    output: the Print Assumptions lines of an up-to-date file without recompiling what depends on it"""
    src = target[:-1]
    sdir = os.path.join(CACHE, "scratch", "%d_%s" % (os.getpid(), target.replace("/", "_")))
    os.makedirs(sdir, exist_ok=True)
    scratch = os.path.join(sdir, os.path.basename(target))
    rc, out, err = sh(["coqc", "-q", "-Q", ".", "BV", "-o", scratch, src], cwd=COQ, timeout=1800)
    shutil.rmtree(sdir, ignore_errors=True)
    return rc == 0, out + err


def build_vo_logged(target):
    """make one .vo; returns (ok, log of a compilation of the current source against the current dependencies).
    The log (with the Print Assumptions output) is cached, so an up-to-date file is not compiled again."""
    logp = os.path.join(CACHE, "coqlog", target.replace("/", "_") + ".log")
    os.makedirs(os.path.dirname(logp), exist_ok=True)
    vo = os.path.join(COQ, target)
    ok, log = build_coq([target])
    if not ok:
        return False, log
    if ("COQC " + target[:-1]) in log:
        open(logp, "w").write(log)
        return True, log
    if os.path.exists(logp) and os.path.getmtime(logp) >= os.path.getmtime(vo):
        return True, open(logp).read()
    ok2, log2 = coqc_log(target)
    if ok2:
        open(logp, "w").write(log2)
    return ok2, log2


def logged_targets():
    ts = ["Props/C%02d.vo" % i for i in range(1, 21)]
    for fs in REFINE.values():
        for f in fs:
            t = "Refine/%s.vo" % f
            if t not in ts:
                ts.append(t)
    return ts


def build_driver():
    """extract the model and build the OCaml driver when the model sources changed."""
    srcs = files_under(os.path.join(COQ, "Alg"), (".v",)) + files_under(os.path.join(COQ, "Sem"), (".v",)) \
        + files_under(os.path.join(COQ, "Model"), (".v",)) + files_under(os.path.join(COQ, "Extract"), (".v",)) \
        + [os.path.join(OCAML, "driver.ml"), os.path.join(OCAML, "build.sh")]
    stamp = os.path.join(OCAML, "gen", ".stamp")
    h = sha_of(srcs)
    drv = os.path.join(OCAML, "model_driver")
    if os.path.exists(drv) and os.path.exists(stamp) and open(stamp).read() == h:
        return True, drv, "cached"
    ok, log = build_coq(["Extract/Exec.vo", "Model/Api.vo"])
    if not ok:
        return False, drv, log[-4000:]
    rc, out, err = sh(["./build.sh"], cwd=OCAML, timeout=900)
    if rc == 0:
        os.makedirs(os.path.dirname(stamp), exist_ok=True)
        open(stamp, "w").write(h)
    return rc == 0, drv, (out + err)[-4000:]


# ----------------------------------------------------------------------------- proof obligations
def coq_obligations(prop):
    """Build Props/<prop>.vo; every Theorem in it is an obligation, discharged when the file
    compiles and its Print Assumptions line says `Closed under the global context`."""
    cfg = PROPS[prop]
    vfile = os.path.join(COQ, "Props", prop + ".v")
    obligations = []
    src = open(vfile).read()
    names = re.findall(r"^Theorem\s+(\w+)", src, re.M)
    # banned constructs anywhere in the development
    banned = []
    for f in files_under(COQ, (".v",)):
        t = re.sub(r"\(\*.*?\*\)", "", open(f).read(), flags=re.S)
        for m in re.finditer(r"\b(Admitted|admit|Axiom|Parameter|Conjecture|Unset Guard|bypass_check|Admit Obligations)\b", t):
            banned.append("%s: %s" % (os.path.relpath(f, ROOT), m.group(1)))
    refine_files = REFINE.get(prop, [])
    with CoqLock():
        ok, log = build_vo_logged("Props/%s.vo" % prop)
        closed = log.count("Closed under the global context")
        axioms = re.findall(r"^Axioms:\n((?:.+\n)+)", log, re.M)
        for n in names:
            obligations.append({"name": n, "file": "coq/Props/%s.v" % prop,
                                "status": "discharged" if ok and not banned else "broken"})
        problems = []
        if not ok:
            m = re.search(r'File "([^"]+)", line (\d+).*?\nError:(.*?)(?:\n\n|\Z)', log, re.S)
            problems.append({"kind": "coq-build", "where": (m.group(1) + ":" + m.group(2)) if m else "?",
                             "error": (m.group(3).strip()[:600] if m else log[-800:])})
        if banned:
            problems.append({"kind": "banned-construct", "where": banned[:10]})
        if ok and closed < len(names):
            problems.append({"kind": "assumptions", "where": "Print Assumptions: %d closed of %d; %s" % (closed, len(names), axioms[:3])})
            for o in obligations:
                o["status"] = "broken"
        # refinement lemmas: generated code (rs2v over /repo/src) = model, one file per source file
        for rf in refine_files:
            vfile = os.path.join(COQ, "Refine", rf + ".v")
            rsrc = open(vfile).read()
            rnames = re.findall(r"^\s*(?:Lemma|Theorem)\s+((?:r_|source_|model_|generated_)\w+)", rsrc, re.M)
            rok, rlog = build_vo_logged("Refine/%s.vo" % rf)
            rclosed = rlog.count("Closed under the global context")
            expected = len(re.findall(r"^Print Assumptions", rsrc, re.M))
            good = rok and not banned and rclosed >= expected
            for n in rnames:
                obligations.append({"name": "refine:" + n, "file": "coq/Refine/%s.v" % rf,
                                    "status": "discharged" if good else "broken"})
            if not rok:
                m = re.search(r'File "([^"]+)", line (\d+).*?\nError:(.*?)(?:\n\n|\Z)', rlog, re.S)
                where = (m.group(1) + ":" + m.group(2)) if m else "?"
                lemma = None
                if m and os.path.exists(os.path.join(COQ, m.group(1))):
                    lines = open(os.path.join(COQ, m.group(1))).read().splitlines()[:int(m.group(2))]
                    for l in reversed(lines):
                        mm = re.match(r"\s*(?:Lemma|Theorem|Definition)\s+(\w+)", l)
                        if mm:
                            lemma = mm.group(1)
                            break
                if any(p.get("kind") == "refinement-broken" and p.get("where") == where for p in problems):
                    continue        # a file that imports the broken one: same failure
                problems.append({"kind": "refinement-broken", "where": where, "lemma": lemma,
                                 "error": (m.group(3).strip()[:600] if m else rlog[-800:]),
                                 "meaning": "the Gallina code regenerated from /repo/src no longer equals the model (or is no longer translatable)"})
            elif rclosed < expected:
                problems.append({"kind": "assumptions", "where": "Refine/%s.v: %d closed of %d" % (rf, rclosed, expected)})
    return obligations, problems


# ----------------------------------------------------------------------------- correspondence
def run_correspondence(prop, tier, seed, bins, drv, keep_impl=None):
    """Same generated cases through the real library (checked and release builds, hooks on)
    and through the extracted model (dbg=true/false); canonical lines are diffed."""
    res = {"cases": 0, "agree": 0, "skipped": 0, "disagreements": [], "profiles": [], "ops": {}}
    genbin = bins.get("debug") or list(bins.values())[0]
    rc, cases, err = sh([genbin, "gen", prop, tier, str(seed)], timeout=600)
    if rc != 0:
        res["disagreements"].append({"kind": "generator-failed", "detail": err[-500:]})
        return res
    lines = [l for l in cases.splitlines() if l.strip() and not l.startswith("#")]
    res["cases"] = len(lines)
    if not lines:
        return res
    for l in lines:
        op = l.split()[2]
        res["ops"][op] = res["ops"].get(op, 0) + 1
    by_id = {l.split()[0]: l for l in lines}
    for profile, dbg in (("debug", "true"), ("release", "false")):
        if profile not in bins:
            continue
        rc1, impl_out, e1 = sh([bins[profile], "impl"], stdin=cases.encode(), timeout=3000)
        # clock-dependent operations: the implementation reports the clock value it ran at
        # (" @now=<ns>"); the model is evaluated at that value (appended to the case line)
        im, now_of = {}, {}
        for l in impl_out.splitlines():
            if " " not in l:
                continue
            cid, rest = l.split(" ", 1)
            m = re.search(r" @now=(\d+)$", rest)
            if m:
                now_of[cid] = m.group(1)
                rest = rest[:m.start()]
            im[cid] = rest
        mcases = []
        for l in cases.splitlines():
            cid = l.split(" ", 1)[0]
            mcases.append(l + " n" + now_of[cid] if cid in now_of else l)
        rc2, model_out, e2 = sh([drv, "--dbg", dbg, "--oracle", bins[profile] + " oracle"],
                                stdin=("\n".join(mcases) + "\n").encode(), timeout=3000)
        if rc1 != 0 or rc2 != 0:
            res["disagreements"].append({"kind": "runner-failed", "profile": profile,
                                         "detail": (e1 + e2)[-800:]})
            continue
        mo = dict(l.split(" ", 1) for l in model_out.splitlines() if " " in l)
        res["profiles"].append(profile)
        if keep_impl is not None:
            keep_impl[profile] = (by_id, im)
        for cid, line in by_id.items():
            a, b = im.get(cid), mo.get(cid)
            if (b is not None and b.startswith("skip:")) or a == "skip":
                res["skipped"] += 1
                continue
            if a == b and a is not None:
                res["agree"] += 1
            else:
                res["disagreements"].append({"kind": "model-vs-impl", "profile": profile, "case": line,
                                             "impl": a, "model": b})
    return res


def run_search(prop, tier, seed, bins):
    """Property-specific failing-input search on the un-hooked API, both build profiles."""
    out = {"evaluations": 0, "distinct": 0, "failures": [], "classes": {}, "samples": []}
    for profile in ("debug", "release"):
        if profile not in bins:
            continue
        rc, so, se = sh([bins[profile], "search", prop, tier, str(seed)], timeout=6000)
        if rc != 0:
            out["failures"].append({"class": "search-crashed", "profile": profile, "input": se[-500:]})
            continue
        for l in so.splitlines():
            if l.startswith("FAIL "):
                f = json.loads(l[5:])
                f["profile"] = profile
                out["failures"].append(f)
            elif l.startswith("SUMMARY "):
                s = json.loads(l[8:])
                out["evaluations"] += s["evaluations"]
                out["distinct"] += s["distinct"]
                for k, v in s["classes"].items():
                    out["classes"][k] = out["classes"].get(k, 0) + v
                if profile == "debug":
                    out["samples"] = s["samples"]
    return out


def run_extra(cmds, bins):
    """additional harness subcommands that print FAIL / SUMMARY lines (e.g. golden-check)"""
    out = {"evaluations": 0, "distinct": 0, "failures": [], "classes": {}, "samples": []}
    for profile in ("debug", "release"):
        if profile not in bins:
            continue
        for cmd in cmds:
            rc, so, se = sh([bins[profile]] + cmd, timeout=3000)
            if rc != 0:
                out["failures"].append({"class": "extra-crashed:" + cmd[0], "profile": profile, "input": se[-500:]})
                continue
            for l in so.splitlines():
                if l.startswith("FAIL "):
                    f = json.loads(l[5:])
                    f["profile"] = profile
                    f.setdefault("class", cmd[0] + ":" + str(f.get("kind", "")))
                    out["failures"].append(f)
                elif l.startswith("SUMMARY "):
                    sm = json.loads(l[8:])
                    out["evaluations"] += sm["evaluations"]
                    out["distinct"] += sm["distinct"]
                    for k, v in sm["classes"].items():
                        out["classes"][cmd[0] + ":" + k] = out["classes"].get(cmd[0] + ":" + k, 0) + v
    return out


def merge_search(a, b):
    a["evaluations"] += b["evaluations"]
    a["distinct"] += b["distinct"]
    a["failures"] += b["failures"]
    for k, v in b["classes"].items():
        a["classes"][k] = a["classes"].get(k, 0) + v
    if not a["samples"]:
        a["samples"] = b.get("samples", [])
    return a


# operations whose output legitimately depends on the backend's Scalar::random
BACKEND_RANDOM_OPS = {"sk_split", "sk_split_tap", "pc_generate", "pokts_generate", "eg_encrypt", "eg_encrypt_proof",
                      "pokts_verify_rel"}


def run_c19(tier, seed, bins, drv):
    """Two-build differential run: the pure-Rust backend against the model and against the blst build."""
    corr = {"cases": 0, "agree": 0, "skipped": 0, "disagreements": [], "profiles": [], "ops": {}}
    srch = {"evaluations": 0, "distinct": 0, "failures": [], "classes": {}, "samples": []}
    ok, rbin, log = build_harness("debug", feature="rust")
    if not ok:
        corr["disagreements"].append({"kind": "rust-backend-build-failed", "detail": log[-800:]})
        return corr, srch
    rbins = {"debug": rbin}
    for gp in ("C01", "C03", "C07", "C08", "C09", "C10", "C11", "C13", "C14", "C15", "C16", "C20"):
        keep_r, keep_b = {}, {}
        c1 = run_correspondence(gp, "quick", seed, rbins, drv, keep_impl=keep_r)       # model vs rust build
        c2 = run_correspondence(gp, "quick", seed, {"debug": bins["debug"]}, drv, keep_impl=keep_b)
        for c in (c1,):
            corr["cases"] += c["cases"]; corr["agree"] += c["agree"]; corr["skipped"] += c["skipped"]
            corr["disagreements"] += [dict(d, backend="rust") for d in c["disagreements"]]
            for k, v in c["ops"].items():
                corr["ops"][k] = corr["ops"].get(k, 0) + v
        # transcript equality of deterministic outputs between the two builds
        if "debug" in keep_r and "debug" in keep_b:
            by_id, im_r = keep_r["debug"]
            _, im_b = keep_b["debug"]
            for cid, line in by_id.items():
                op = line.split()[2]
                if op in BACKEND_RANDOM_OPS:
                    continue
                srch["evaluations"] += 1
                srch["distinct"] += 1
                srch["classes"]["transcript_equal:" + op] = srch["classes"].get("transcript_equal:" + op, 0) + 1
                if im_r.get(cid) != im_b.get(cid):
                    srch["failures"].append({"class": "backends_differ", "profile": "debug",
                                             "input": {"case": line, "blst": im_b.get(cid), "rust": im_r.get(cid)}})
                elif len(srch["samples"]) < 3:
                    srch["samples"].append({"class": "transcript_equal", "input": {"case": line[:160], "output": (im_b.get(cid) or "")[:80]}})
    corr["profiles"] = ["debug(rust backend)"]
    # the decoding / identity / acceptance searches of the other properties on both builds: a search class that fails
    # under exactly one backend is an input on which the two builds decide differently (a class that fails under
    # both is that property's violation, not a backend difference, and is left to its own check)
    import concurrent.futures
    sprops = ("C02", "C04", "C09", "C15", "C16", "C17") if tier == "quick" else tuple("C%02d" % i for i in range(1, 21) if i != 19)
    known = load_known()

    def one_search(arg):
        name, b, p = arg
        rc, so, se = sh([b, "search", p, "quick", str(seed)], timeout=6000)
        fails, evals = [], 0
        if rc != 0:
            fails.append({"class": "search-crashed", "input": se[-400:]})
        for l in so.splitlines():
            if l.startswith("FAIL "):
                f = json.loads(l[5:])
                if not match_known(p, f, known):
                    fails.append(f)
            elif l.startswith("SUMMARY "):
                evals = json.loads(l[8:])["evaluations"]
        return name, p, fails, evals
    jobs = [(n, b, p) for p in sprops for (n, b) in (("blst", bins["debug"]), ("rust", rbin))]
    res = {}
    with concurrent.futures.ThreadPoolExecutor(max_workers=8) as ex:
        for name, p, fails, evals in ex.map(one_search, jobs):
            res[(p, name)] = fails
            srch["evaluations"] += evals; srch["distinct"] += evals
            srch["classes"]["search_on_%s:%s" % (name, p)] = evals
    for p in sprops:
        cb = {}
        for name in ("blst", "rust"):
            for f in res[(p, name)]:
                cb.setdefault(f.get("class"), {}).setdefault(name, []).append(f)
        for cls, by in cb.items():
            if len(by) == 1:
                name = list(by)[0]
                for f in by[name][:5]:
                    srch["failures"].append({"class": "backends_decide_differently", "profile": "fails under %s only" % name,
                                             "input": {"property_search": p, "search_class": cls, "input": f.get("input")}})
    # cross-consumption of randomized artefacts, both directions
    for (pb, cb, name) in ((bins["debug"], rbin, "blst->rust"), (rbin, bins["debug"], "rust->blst")):
        rc, doc, err = sh([pb, "c19-produce", tier, str(seed)], timeout=3000)
        if rc != 0:
            srch["failures"].append({"class": "c19-produce-crashed", "profile": name, "input": err[-400:]})
            continue
        path = os.path.join(CACHE, "c19-%s.json" % name.replace("->", "_to_"))
        os.makedirs(CACHE, exist_ok=True)
        open(path, "w").write(doc)
        rc, so, se = sh([cb, "c19-consume", path], timeout=3000)
        if rc != 0:
            srch["failures"].append({"class": "c19-consume-crashed", "profile": name, "input": se[-400:]})
            continue
        for l in so.splitlines():
            if l.startswith("FAIL "):
                f = json.loads(l[5:]); f["profile"] = name
                srch["failures"].append(f)
            elif l.startswith("SUMMARY "):
                sm = json.loads(l[8:])
                srch["evaluations"] += sm["evaluations"]; srch["distinct"] += sm["distinct"]
                for k, v in sm["classes"].items():
                    srch["classes"][name + ":" + k] = srch["classes"].get(name + ":" + k, 0) + v
    return corr, srch


def source_obligations(prop):
    """Static obligations read off /repo's working tree."""
    obs, problems = [], []
    if prop == "C19":
        hits = []
        for f in files_under(os.path.join(REPO, "src"), (".rs",)):
            for i, l in enumerate(open(f).read().splitlines(), 1):
                if re.search(r'cfg\(.*feature\s*=', l):
                    hits.append("%s:%d: %s" % (os.path.relpath(f, REPO), i, l.strip()))
        allowed = [h for h in hits if h.startswith("src/impls.rs") or h.startswith("src/lib.rs")]
        extra = [h for h in hits if h not in allowed]
        obs.append({"name": "only_backend_conditional_item_is_the_inner_types_reexport", "file": "/repo/src",
                    "status": "discharged" if not extra and len(allowed) <= 3 else "broken", "detail": hits})
        if extra or len(allowed) > 3:
            problems.append({"kind": "backend-conditional-code", "where": extra or allowed})
    return obs, problems


# ----------------------------------------------------------------------------- findings
def load_known():
    p = os.path.join(ROOT, "known_findings.json")
    if not os.path.exists(p):
        return []
    return json.load(open(p)).get("known", [])


def match_known(prop, failure, known):
    """A failure is a known finding only if an entry for this property names its class and
    every key of the entry's `match` equals the failure's input field."""
    for k in known:
        if k.get("property") != prop or k.get("class") != failure.get("class"):
            continue
        if k.get("profile") and k["profile"] != failure.get("profile"):
            continue
        inp = failure.get("input", {})
        if isinstance(inp, dict) and all(inp.get(a) == b for a, b in k.get("match", {}).items()):
            return k
    return None


def write_replay(prop, payload):
    os.makedirs(REPLAYS, exist_ok=True)
    blob = json.dumps(payload, sort_keys=True, indent=1)
    name = "%s-%s.json" % (prop, hashlib.sha256(blob.encode()).hexdigest()[:12])
    path = os.path.join(REPLAYS, name)
    open(path, "w").write(blob)
    return path


# ----------------------------------------------------------------------------- main
def setup():
    t0 = time.time()
    os.makedirs(EVID, exist_ok=True)
    if not os.path.exists(os.path.join(HARNESS, "Cargo.lock")):
        sh(["cp", os.path.join(REPO, "Cargo.lock"), os.path.join(HARNESS, "Cargo.lock")])
    for prof in ("debug", "release"):
        ok, _, log = build_harness(prof)
        print("harness %s: %s" % (prof, "ok" if ok else "FAILED\n" + log))
        if not ok:
            return 1
    ok, _, log = build_harness("debug", feature="rust")
    print("harness debug (pure-Rust backend): %s" % ("ok" if ok else "FAILED\n" + log))
    ok, log, st = regen()
    print("rs2v: %s %s" % ("ok" if ok else "FAILED " + log, st))
    sh("coq_makefile -f _CoqProject -o Makefile", cwd=COQ)
    ok, log = build_coq([])
    print("coq: %s" % ("ok" if ok else "FAILED\n" + log[-3000:]))
    if not ok:
        return 1
    # Print Assumptions logs of every property / refinement file (scratch compilations, 16 at a time)
    from concurrent.futures import ThreadPoolExecutor
    def one(t):
        ok1, lg = coqc_log(t)
        if ok1:
            lp = os.path.join(CACHE, "coqlog", t.replace("/", "_") + ".log")
            os.makedirs(os.path.dirname(lp), exist_ok=True)
            open(lp, "w").write(lg)
        return ok1
    with ThreadPoolExecutor(16) as ex:
        oks = list(ex.map(one, logged_targets()))
    print("assumption logs: %d/%d" % (sum(oks), len(oks)))
    ok, _, log = build_driver()
    print("driver: %s" % ("ok" if ok else "FAILED\n" + log))
    print("setup %.0fs" % (time.time() - t0))
    return 0 if ok else 1


def replay(prop, path):
    """Re-execute a recorded violation on the current tree: the recorded cases through implementation and model,
    the recorded search classes through the search, the recorded broken obligations through a rebuild."""
    r = json.load(open(path))
    bins = {}
    for prof in ("debug", "release"):
        ok, b, _ = build_harness(prof)
        if ok:
            bins[prof] = b
    regen()
    bad = 0
    search_classes = set()
    for f in r.get("failures", []):
        if f.get("kind") == "model-vs-impl":
            prof = f.get("profile", "debug")
            ok, drv, _ = build_driver()
            _, io, _ = sh([bins[prof], "impl"], stdin=(f["case"] + "\n").encode())
            m = re.search(r" @now=(\d+)$", io.strip())
            case, iout = f["case"], io.strip()
            if m:
                case, iout = case + " n" + m.group(1), iout[:m.start()]
            _, mo, _ = sh([drv, "--dbg", "true" if prof == "debug" else "false", "--oracle", bins[prof] + " oracle"],
                          stdin=(case + "\n").encode())
            print("case:", f["case"][:200])
            print(" impl :", iout[:200])
            print(" model:", mo.strip()[:200])
            bad += iout != mo.strip()
        elif f.get("class"):
            search_classes.add(f["class"])
        else:
            print("recorded failure (not re-executable on its own):", json.dumps(f)[:300])
    if search_classes and bins:
        cfg = PROPS[prop]
        srch = run_search(prop, r.get("tier", "quick"), r.get("seed", 1), bins)
        if cfg.get("extra"):
            srch = merge_search(srch, run_extra(cfg["extra"], bins))
        if prop == "C19" and "debug" in bins:
            okd, drv, _ = build_driver()
            if okd:
                srch = merge_search(srch, run_c19(r.get("tier", "quick"), r.get("seed", 1), bins, drv)[1])
        known = load_known()
        still = [f for f in srch["failures"] if f.get("class") in search_classes and not match_known(prop, f, known)]
        print("search classes recorded: %s; failing now: %d" % (sorted(search_classes), len(still)))
        for f in still[:3]:
            print(" still failing:", json.dumps(f)[:300])
        bad += len(still)
    if r.get("broken_obligations"):
        obligations, problems = coq_obligations(prop)
        sobs, sprob = source_obligations(prop)
        problems += sprob
        print("obligations recorded as broken: %d; broken now: %d" % (len(r["broken_obligations"]), len(problems)))
        for p in problems[:3]:
            print(" still broken:", json.dumps(p)[:400])
        bad += len(problems)
    if bad:
        print("VIOLATION property=%s replay=%s" % (prop, path))
        return 1
    print("replay: nothing of the recorded violation reproduces on the current tree")
    return 0


def main():
    args = sys.argv[1:]
    if args and args[0] == "--setup":
        sys.exit(setup())
    prop = args[0]
    tier = os.environ.get("VERIF_TIER", "quick")
    if "--tier" in args:
        tier = args[args.index("--tier") + 1]
    if "--replay" in args:
        sys.exit(replay(prop, args[args.index("--replay") + 1]))
    seed = int(os.environ.get("VERIF_SEED", "1"))
    cfg = PROPS[prop]
    t0 = time.time()
    os.makedirs(EVID, exist_ok=True)

    # 1. builds from the current working tree
    bins, build_problems = {}, []
    for prof in ("debug", "release"):
        ok, b, log = build_harness(prof)
        if ok:
            bins[prof] = b
        else:
            build_problems.append({"kind": "harness-build", "profile": prof, "error": log[-1500:]})
    rg_ok, rg_log, rg_stats = regen()
    if not rg_ok:
        build_problems.append({"kind": "translator-failed", "error": rg_log})
    okd, drv, dlog = build_driver()
    if not okd:
        build_problems.append({"kind": "driver-build", "error": dlog[-1500:]})

    # 2. proof obligations
    obligations, problems = coq_obligations(prop)
    problems = build_problems + problems

    # 3. correspondence (model vs implementation)
    corr = {"cases": 0, "agree": 0, "skipped": 0, "disagreements": [], "profiles": [], "ops": {}}
    if bins and okd and cfg.get("gen", True):
        corr = run_correspondence(prop, tier, seed, bins, drv)

    # 4. failing-input search on the un-hooked API
    srch = {"evaluations": 0, "distinct": 0, "failures": [], "classes": {}, "samples": []}
    if bins and cfg.get("search", True):
        srch = run_search(prop, tier, seed, bins)
    if bins and cfg.get("extra"):
        srch = merge_search(srch, run_extra(cfg["extra"], bins))
    if prop == "C19" and "debug" in bins and okd:
        c19c, c19s = run_c19(tier, seed, bins, drv)
        corr = c19c
        srch = merge_search(srch, c19s)
    sobs, sprob = source_obligations(prop)
    obligations += sobs
    problems += sprob

    # 5. verdict
    known = load_known()
    new_failures, known_hits = [], []
    for f in srch["failures"]:
        k = match_known(prop, f, known)
        (known_hits if k else new_failures).append((f, k))
    for d in corr["disagreements"]:
        f = {"class": "correspondence:" + d.get("kind", ""), "input": d, "profile": d.get("profile")}
        k = match_known(prop, f, known)
        (known_hits if k else new_failures).append((d, k))
    seen_known = set()
    for f, k in known_hits:
        line = "KNOWN-FINDING: property=%s %s" % (prop, k.get("what", k.get("class")))
        if line not in seen_known:
            seen_known.add(line)
            print(line)
    violations = 0
    if new_failures or problems:
        payload = {"property": prop, "tier": tier, "seed": seed,
                   "broken_obligations": problems,
                   "failures": [f for f, _ in new_failures][:40],
                   "replay_cmd": "python3 check.py %s --replay <this file>" % prop}
        path = write_replay(prop, payload)
        violations = len(new_failures) + len(problems)
        suffix = "" if new_failures else " no-failing-input-found"
        print("VIOLATION property=%s replay=%s%s" % (prop, path, suffix))

    discharged = sum(1 for o in obligations if o["status"] == "discharged")
    samples = []
    samples += [{"obligation": o["name"], "status": o["status"]} for o in obligations[:3]]
    samples += srch["samples"][:4]
    ev = {
        "property_id": prop, "tier": tier, "seed": seed, "level": "proof",
        "coverage": {
            "obligations": len(obligations), "discharged": discharged,
            "obligation_list": obligations,
            "checker_cmd": "cd coq && make Props/%s.vo  (coqc 8.16.1, full .vo build; Print Assumptions under every theorem)" % prop,
            "trusted_base": cfg.get("trusted_base", []) + [
                "Coq 8.16.1 kernel (coqc; vm_compute used for constant tables only)",
                "no axioms: every property theorem prints `Closed under the global context`",
                "hypotheses of the theorems: FieldLaws K (BLS12-381 scalar field is a field: not proved here), OracleLaws where named",
                "dlog model of the pairing groups (DESIGN.md 3.1); oracles for hash-to-curve, HKDF, SHAKE128, SHA-256, merlin, point/scalar encodings, ChaCha20 (DESIGN.md 3.2)",
                "correspondence check: extraction (ExtrOcamlBasic directives only), ocaml/driver.ml, harness/blsdiff (Rust), hooks --cfg blsful_verif in /repo",
                "translator tie: harness/rs2v (Rust, syn) and the vocabulary coq/Refine/Prelude.v into which it maps Rust operations; calls into external crates map to the model's hand-written primitives",
            ],
            "evaluations": corr["cases"] * max(1, len(corr["profiles"])) + srch["evaluations"],
            "distinct_nontrivial": corr["cases"] + srch["distinct"],
            "rule": cfg.get("rule", ""),
            "samples": samples,
            "traces_validated_against_impl": corr["agree"],
            "correspondence": {"cases": corr["cases"], "profiles": corr["profiles"], "agree": corr["agree"],
                               "skipped": corr["skipped"], "disagreements": len(corr["disagreements"]),
                               "ops": corr["ops"]},
            "search": {"evaluations": srch["evaluations"], "distinct": srch["distinct"],
                       "classes": srch["classes"], "failures": len(srch["failures"])},
            "hand_modelled": cfg.get("hand_modelled", []),
            "translator": {"tool": "harness/rs2v (syn-based, run on /repo/src on every check)", "functions_translated": rg_stats.get("translated"),
                           "not_translated": rg_stats.get("not_translated"), "refine_files": REFINE.get(prop, [])},
            "known_findings_hit": len(known_hits),
        },
        "assumptions": cfg.get("assumptions", []),
        "wall_s": round(time.time() - t0, 1),
        "violations": violations,
    }
    json.dump(ev, open(os.path.join(EVID, prop + ".json"), "w"), indent=1)
    print("%s tier=%s obligations=%d/%d correspondence=%d/%d (skipped %d) search=%d evals, %d failures (%d known, %d new), %.0fs" % (
        prop, tier, discharged, len(obligations), corr["agree"], corr["cases"] * max(1, len(corr["profiles"])), corr["skipped"],
        srch["evaluations"], len(srch["failures"]), len(known_hits), len(new_failures), time.time() - t0))
    sys.exit(1 if violations else 0)


if __name__ == "__main__":
    main()
